import RtcVerif.Model.C05
import RtcVerif.Proofs.C05Index
import RtcVerif.Proofs.C05Pins
import RtcVerif.Proofs.C05PinsGlobal
import RtcVerif.Proofs.C05Interp
import RtcVerif.Proofs.C08Scale
import RtcVerif.Proofs.C05Layout
import RtcVerif.Proofs.C05Alias
/-!
# C05 — variable bounds and initial conditions are imposed exactly as given

Property theorems about the model `RtcVerif.C05` of `discretize_controls/_states`,
`_collint_get_lbx_ubx`, the assembly of `lbx/ubx` and the history pins in `transcribe()`, for any
number of variables, components, time stamps and ensemble members.  Helper lemmas:
`Proofs/C05Lists|C05Block|C05Pass|C05Index|C05Pins|C05Layout.lean`, `Proofs/C08Scale.lean`.
The `code_*` theorems connect the source-shaped reference `Model/C05Layout.lean` (= the generated
`Gen/LayoutPins.lean`) to the layout and pin model of the other theorems.
-/
namespace RtcVerif.C05
open RtcVerif

/-- **The box is the user's box (states, algebraics, path and extra variables).**  Before the
    history pins, the entry of `lbx` (`lower = true`) / `ubx` that the layout assigns to
    (member `m`, slot `j`, component `c`, stamp `i`) is the user's bound of that component at
    that stamp — scalar replicated, vector per component, Timeseries interpolated at the
    variable's own stamps with fill ∓inf (column `c` of a 2-D series), `None` ↦ ∓inf — divided by
    the nominal of component `c`. -/
theorem box_is_users_box (lower : Bool) (I : Inst) (arr : List XVal) (hE : 0 < I.E)
    (h : boxArr lower I = some arr) (m j c i : Nat) (b : Blk) (hm : m < I.E)
    (hb : (stateBlocks I)[j]? = some b) (hwf : WF b) (hc : c < b.size) (hi : i < b.n) :
    arr[stateIndex I m j c i]? = scaledBound lower b c i := by
  rw [boxArr_closed lower I hE] at h
  cases hcc : closedPass lower I.controls with
  | none => simp [hcc] at h
  | some cc =>
    cases hss : closedPass lower (stateBlocks I) with
    | none => simp [hcc, hss] at h
    | some s =>
      simp [hcc, hss] at h
      subst h
      have hcl : cc.length = ctrlSize I := closedPass_length lower _ cc hcc
      have hsl : s.length = memberSize I := closedPass_length lower _ s hss
      have hk := index_lt b c i hc hi
      have hoff := offsetOf_add_len_le (stateBlocks I) j b hb
      have hgetD : ((stateBlocks I).getD j (initDerBlk 0)).n = b.n := by
        simp [List.getD, hb]
      unfold stateIndex
      rw [hgetD]
      have e : ctrlSize I + m * memberSize I + offsetOf (stateBlocks I) j + (c * b.n + i)
          = cc.length + (m * memberSize I + (offsetOf (stateBlocks I) j + (c * b.n + i))) := by
        rw [hcl]; ring
      rw [e, List.getElem?_append_right (by omega)]
      have e2 : cc.length + (m * memberSize I + (offsetOf (stateBlocks I) j + (c * b.n + i))) - cc.length
          = m * memberSize I + (offsetOf (stateBlocks I) j + (c * b.n + i)) := by omega
      rw [e2]
      have hlt : offsetOf (stateBlocks I) j + (c * b.n + i) < memberSize I := by
        unfold memberSize; omega
      rw [getElem?_flatten_uniform (List.replicate I.E s) (memberSize I)
        (by intro a ha; rw [List.eq_of_mem_replicate ha]; exact hsl) m _ hlt]
      rw [List.getElem?_replicate]
      simp only [hm, if_true, Option.bind_some]
      obtain ⟨v, hv, hentry⟩ := closedPass_entry lower (stateBlocks I) s hss j (c * b.n + i) b hb hk
      rw [hentry]
      exact blockVals_entry lower b v hwf hv c i hc hi

/-- **The box is the user's box (controls).**  Control `j` has one shared set of entries for all
    members (default discretisation); entry `i` carries the user's bound at the control's own
    `i`-th stamp over its nominal. -/
theorem box_is_users_box_controls (lower : Bool) (I : Inst) (arr : List XVal) (hE : 0 < I.E)
    (h : boxArr lower I = some arr) (j i : Nat) (b : Blk)
    (hb : I.controls[j]? = some b) (hwf : WF b) (hs : b.size = 1) (hi : i < b.n) :
    arr[ctrlIndex I j i]? = scaledBound lower b 0 i := by
  rw [boxArr_closed lower I hE] at h
  cases hcc : closedPass lower I.controls with
  | none => simp [hcc] at h
  | some cc =>
    cases hss : closedPass lower (stateBlocks I) with
    | none => simp [hcc, hss] at h
    | some s =>
      simp [hcc, hss] at h
      subst h
      have hcl : cc.length = ctrlSize I := closedPass_length lower _ cc hcc
      have hk := index_lt b 0 i (by omega) hi
      have hoff := offsetOf_add_len_le I.controls j b hb
      unfold ctrlIndex
      have hlt : offsetOf I.controls j + i < cc.length := by
        rw [hcl]; unfold ctrlSize; simp at hk; omega
      rw [List.getElem?_append_left hlt]
      obtain ⟨v, hv, hentry⟩ := closedPass_entry lower I.controls cc hcc j (0 * b.n + i) b hb hk
      simp only [Nat.zero_mul, Nat.zero_add] at hentry
      rw [hentry]
      have := blockVals_entry lower b v hwf hv 0 i (by omega) hi
      simpa using this

/-- **Vector Timeseries layout** (the repaired F11): a 2-D Timeseries bound of a vector variable
    lands component-major — entry (component `c`, stamp `i`) is column `c` of the series
    interpolated at stamp `i`, not a time-major scramble. -/
theorem vector_timeseries_layout (I : Inst) (arr : List XVal) (hE : 0 < I.E)
    (h : boxArr true I = some arr) (m j c i : Nat) (b : Blk) (hm : m < I.E)
    (hb : (stateBlocks I)[j]? = some b) (hns : b.scalarT = false) (hc : c < b.size) (hi : i < b.n)
    (t : List Rat) (rows : List (List EVal)) (hlo : b.lo = .ts2 t rows)
    (hk : (rows.head?.map List.length).getD 0 ≠ 1) :
    arr[stateIndex I m j c i]? =
      ((interpArrayX b.mode (toKnots t (column rows c)) XVal.ninf XVal.ninf b.times).bind (·[i]?)).map
        fun x => xdivPos x (b.nom.at c) := by
  rw [box_is_users_box true I arr hE h m j c i b hm hb (by intro h'; rw [hns] at h'; cases h') hc hi]
  simp [scaledBound, sideOf, fillOf, hlo, sideAt, hns, hk]

/-! ## every entry is covered exactly once -/

/-- a valid named state-pass entry -/
structure Entry (I : Inst) (m j c i : Nat) (b : Blk) : Prop where
  hm : m < I.E
  hb : (stateBlocks I)[j]? = some b
  hc : c < b.size
  hi : i < b.n

/-- state-pass entries lie after the controls and inside the decision vector -/
theorem stateIndex_range (I : Inst) (m j c i : Nat) (b : Blk) (e : Entry I m j c i b) :
    ctrlSize I ≤ stateIndex I m j c i ∧ stateIndex I m j c i < totalSize I := by
  rw [stateIndex_eq I m j c i b e.hb]
  have hk := index_lt b c i e.hc e.hi
  have hoff := offsetOf_add_len_le (stateBlocks I) j b e.hb
  have hm : (m + 1) * memberSize I ≤ I.E * memberSize I := Nat.mul_le_mul_right _ e.hm
  have : (m + 1) * memberSize I = m * memberSize I + memberSize I := by ring
  unfold totalSize memberSize at *
  omega

/-- **No two named entries share a decision-vector entry** (different member, variable,
    component or stamp ⇒ different index). -/
theorem stateIndex_injective (I : Inst) (m j c i m' j' c' i' : Nat) (b b' : Blk)
    (e : Entry I m j c i b) (e' : Entry I m' j' c' i' b')
    (h : stateIndex I m j c i = stateIndex I m' j' c' i') :
    m = m' ∧ j = j' ∧ c = c' ∧ i = i' := by
  rw [stateIndex_eq I m j c i b e.hb, stateIndex_eq I m' j' c' i' b' e'.hb] at h
  have hk := index_lt b c i e.hc e.hi
  have hk' := index_lt b' c' i' e'.hc e'.hi
  have hoff := offsetOf_add_len_le (stateBlocks I) j b e.hb
  have hoff' := offsetOf_add_len_le (stateBlocks I) j' b' e'.hb
  set S := memberSize I with hS
  have hq : offsetOf (stateBlocks I) j + (c * b.n + i) < S := by unfold memberSize at hS; omega
  have hq' : offsetOf (stateBlocks I) j' + (c' * b'.n + i') < S := by unfold memberSize at hS; omega
  have hmm : m = m' := by
    rcases Nat.lt_trichotomy m m' with hlt | heq | hlt
    · have : (m + 1) * S ≤ m' * S := Nat.mul_le_mul_right _ hlt
      have : (m + 1) * S = m * S + S := by ring
      omega
    · exact heq
    · have : (m' + 1) * S ≤ m * S := Nat.mul_le_mul_right _ hlt
      have : (m' + 1) * S = m' * S + S := by ring
      omega
  subst hmm
  have hqq : offsetOf (stateBlocks I) j + (c * b.n + i) = offsetOf (stateBlocks I) j' + (c' * b'.n + i') := by
    omega
  have hjj : j = j' :=
    locate_unique (stateBlocks I) (offsetOf (stateBlocks I) j + (c * b.n + i)) j j' b b' e.hb e'.hb
      (by omega) (by omega) (by omega) (by omega)
  subst hjj
  have hbb : b = b' := by
    have := e.hb.symm.trans e'.hb
    simpa using this
  subst hbb
  have := comp_time_unique b.n c i c' i' e.hi e'.hi (by omega)
  exact ⟨rfl, rfl, this.1, this.2⟩

/-- **Every entry after the controls belongs to a named entry**: with `stateIndex_injective`,
    the index ranges of different (member, variable) are pairwise disjoint and together cover
    `[control_size, N)` exactly. -/
theorem stateIndex_surjective (I : Inst) (p : Nat) (h1 : ctrlSize I ≤ p) (h2 : p < totalSize I) :
    ∃ m j c i b, Entry I m j c i b ∧ p = stateIndex I m j c i := by
  set S := memberSize I with hS
  have hSpos : 0 < S := by
    rcases Nat.eq_zero_or_pos S with h0 | h0
    · unfold totalSize at h2; rw [← hS, h0] at h2; omega
    · exact h0
  set r := p - ctrlSize I with hr
  have hrlt : r < I.E * S := by unfold totalSize at h2; rw [hS]; omega
  have hmE : r / S < I.E := Nat.div_lt_of_lt_mul (by rw [Nat.mul_comm]; exact hrlt)
  have hq : r % S < totalLen (stateBlocks I) := Nat.mod_lt _ hSpos
  obtain ⟨j, b, hb, ho1, ho2⟩ := locate (stateBlocks I) (r % S) hq
  obtain ⟨c, i, hc, hi, hci⟩ := comp_time_exists b.n b.size (r % S - offsetOf (stateBlocks I) j)
    (by rw [← Blk.len_eq]; omega)
  refine ⟨r / S, j, c, i, b, ⟨hmE, hb, hc, hi⟩, ?_⟩
  rw [stateIndex_eq I _ j c i b hb]
  have := Nat.div_add_mod r S
  have hmul : r / S * memberSize I = S * (r / S) := by rw [← hS, Nat.mul_comm]
  omega

/-- control entries: inside `[0, control_size)`, the same for every member by construction -/
theorem ctrlIndex_range (I : Inst) (j i : Nat) (b : Blk) (hb : I.controls[j]? = some b)
    (hs : b.size = 1) (hi : i < b.n) : ctrlIndex I j i < ctrlSize I := by
  have hoff := offsetOf_add_len_le I.controls j b hb
  have : b.len = b.n := by rw [Blk.len_eq, hs, Nat.mul_one]
  unfold ctrlIndex ctrlSize
  omega

theorem ctrlIndex_injective (I : Inst) (j i j' i' : Nat) (b b' : Blk)
    (hb : I.controls[j]? = some b) (hb' : I.controls[j']? = some b')
    (hs : b.size = 1) (hs' : b'.size = 1) (hi : i < b.n) (hi' : i' < b'.n)
    (h : ctrlIndex I j i = ctrlIndex I j' i') : j = j' ∧ i = i' := by
  unfold ctrlIndex at h
  have hl : b.len = b.n := by rw [Blk.len_eq, hs, Nat.mul_one]
  have hl' : b'.len = b'.n := by rw [Blk.len_eq, hs', Nat.mul_one]
  have hjj : j = j' :=
    locate_unique I.controls (offsetOf I.controls j + i) j j' b b' hb hb'
      (by omega) (by omega) (by omega) (by omega)
  subst hjj
  exact ⟨rfl, by omega⟩

theorem ctrlIndex_surjective (I : Inst) (hsz : ∀ b ∈ I.controls, b.size = 1) (p : Nat)
    (h : p < ctrlSize I) : ∃ j i b, I.controls[j]? = some b ∧ i < b.n ∧ p = ctrlIndex I j i := by
  obtain ⟨j, b, hb, ho1, ho2⟩ := locate I.controls p h
  have hs : b.size = 1 := hsz b (List.mem_of_getElem? hb)
  have hl : b.len = b.n := by rw [Blk.len_eq, hs, Nat.mul_one]
  exact ⟨j, p - offsetOf I.controls j, b, hb, by omega, by unfold ctrlIndex; omega⟩

/-! ## results stay inside the user's box -/

/-- **Results in the box.**  If the decision-vector entry `x` of a named entry respects
    `lbx ≤ x ≤ ubx` (what a successful solver guarantees), then the decoded value
    `nominal · x` — what `extract_results()` returns — respects the user's bounds `lo ≤ · ≤ hi`
    of that component at that stamp.  (Positive nominal; bounds may be ∓inf.) -/
theorem results_in_box (I : Inst) (lbx ubx : List XVal) (hE : 0 < I.E)
    (hl : boxArr true I = some lbx) (hu : boxArr false I = some ubx)
    (m j c i : Nat) (b : Blk) (e : Entry I m j c i b) (hwf : WF b) (hnom : 0 < b.nom.at c)
    (lo hi : EVal)
    (hlo : sideAt b b.lo XVal.ninf c i = some (.e lo)) (hhi : sideAt b b.hi XVal.pinf c i = some (.e hi))
    (x : Rat) (L U : EVal)
    (hL : lbx[stateIndex I m j c i]? = some (.e L)) (hU : ubx[stateIndex I m j c i]? = some (.e U))
    (hx : L ≤ EVal.fin x ∧ EVal.fin x ≤ U) :
    lo ≤ EVal.fin (b.nom.at c * x) ∧ EVal.fin (b.nom.at c * x) ≤ hi := by
  have h1 := box_is_users_box true I lbx hE hl m j c i b e.hm e.hb hwf e.hc e.hi
  have h2 := box_is_users_box false I ubx hE hu m j c i b e.hm e.hb hwf e.hc e.hi
  simp only [scaledBound, sideOf, fillOf, if_true, Bool.false_eq_true, if_false] at h1 h2
  rw [hlo] at h1
  rw [hhi] at h2
  rw [hL] at h1
  rw [hU] at h2
  simp only [Option.map_some, xdivPos, Option.some.injEq, XVal.e.injEq] at h1 h2
  subst h1 h2
  exact ⟨(EVal.divPos_le_fin_iff lo _ x hnom).1 hx.1, (EVal.fin_le_divPos_iff hi _ x hnom).1 hx.2⟩

/-- multiplying the stored bound by the nominal gives back the user's bound -/
theorem nominal_times_bound (x : EVal) (ν : Rat) (hν : ν ≠ 0) :
    xmulPos (xdivPos (.e x) ν) ν = .e x := by
  simp [xdivPos, xmulPos, EVal.mulPos_divPos x ν hν]

/-! ## history pins and initial-derivative pins -/

/-- **History pin value.**  A history that ends at `t0` with a (non-NaN) value `v0` pins
    `lbx = ubx = v0 / nominal`, for every interpolation method, whatever the earlier history
    entries are (NaN at `t-1` included). -/
theorem history_pin_value (t0 : Rat) (b : Blk) (hm : b.mode ≤ 2) (pt : List Rat)
    (pv : List (Option Rat)) (v0 : Rat) (hl : pt.length = pv.length) (hlt : ∀ t ∈ pt, t < t0) :
    pinValue t0 b (some (histEndingAt pt pv t0 (some v0)))
      = some (some (XVal.fin (v0 / b.nom.at 0))) := by
  obtain ⟨pre, hk, hpre⟩ := knots_histEndingAt pt pv t0 (some v0) hl
  unfold pinValue
  simp only [hk]
  rw [interpScalarX_last b.mode hm pre t0 _ _ _ (hpre hlt)]
  rfl

/-- a NaN at `t0` (or no history at all) pins nothing -/
theorem history_nan_no_pin (t0 : Rat) (b : Blk) (hm : b.mode ≤ 2) (pt : List Rat)
    (pv : List (Option Rat)) (hl : pt.length = pv.length) (hlt : ∀ t ∈ pt, t < t0) :
    pinValue t0 b (some (histEndingAt pt pv t0 none)) = some none ∧ pinValue t0 b none = some none := by
  obtain ⟨pre, hk, hpre⟩ := knots_histEndingAt pt pv t0 none hl
  refine ⟨?_, rfl⟩
  unfold pinValue
  simp only [hk]
  rw [interpScalarX_last b.mode hm pre t0 _ _ _ (hpre hlt)]

/-- **History pins override the bounds.**  Within the sweep of member `m` over the pin variables
    (states, algebraics, controls, in this order) starting from *any* `lbx`/`ubx`: when the
    `k`-th variable has a value to pin, afterwards `lbx` and `ubx` of its first entry both equal
    that value — whatever bound was there before — provided no later variable of the sweep owns
    the same entry (see `pin_entries_distinct` for states and algebraics). -/
theorem history_pins_override (I : Inst) (m : Nat) (l : List (Blk × Option Hist))
    (lo hi lo' hi' : List XVal) (h : applyPins I m l 0 (lo, hi) = some (lo', hi'))
    (k : Nat) (b : Blk) (hh : Option Hist) (hk : l[k]? = some (b, hh)) (v : XVal)
    (hv : pinValue I.t0 b hh = some (some v))
    (hlen : pinIndex I m k < lo.length ∧ pinIndex I m k < hi.length)
    (hlater : ∀ k', k < k' → k' < l.length → pinIndex I m k ≠ pinIndex I m k') :
    lo'[pinIndex I m k]? = some v ∧ hi'[pinIndex I m k]? = some v := by
  have := applyPins_effect I m l 0 lo hi lo' hi' h k b hh hk v hv (by simpa using hlen)
    (by intro k' h1 h2; simpa using hlater k' h1 h2)
  simpa using this

/-- entries that are not the first entry of a pin variable keep their box -/
theorem history_pins_frame (I : Inst) (m : Nat) (l : List (Blk × Option Hist))
    (lo hi lo' hi' : List XVal) (h : applyPins I m l 0 (lo, hi) = some (lo', hi')) (p : Nat)
    (hp : ∀ k, k < l.length → p ≠ pinIndex I m k) : lo'[p]? = lo[p]? ∧ hi'[p]? = hi[p]? :=
  applyPins_frame I m l 0 lo hi lo' hi' h p (by intro k hk; simpa using hp k hk)

/-- the first entries of different states / algebraic states of one member are different
    entries, and different from every control entry (non-empty slots) -/
theorem pin_entries_distinct (I : Inst) (m k k' : Nat) (b : Blk)
    (hk : k < I.states.length + I.algs.length) (hkk : k < k')
    (hb : (stateBlocks I)[k]? = some b) (hpos : 0 < b.len)
    (hctrl : ∀ (j : Nat) (b' : Blk), I.controls[j]? = some b' → 0 < b'.len)
    (hk' : k' < (pinVars I).length) :
    pinIndex I m k ≠ pinIndex I m k' := by
  unfold pinIndex
  simp only [hk, if_true]
  by_cases hs : k' < I.states.length + I.algs.length
  · simp only [hs, if_true]
    have := offsetOf_lt_slots (stateBlocks I) k k' b hb hkk
    omega
  · simp only [hs, if_false]
    have hj : k' - (I.states.length + I.algs.length) < I.controls.length := by
      simp [pinVars] at hk'; omega
    obtain ⟨b', hb'⟩ : ∃ b', I.controls[k' - (I.states.length + I.algs.length)]? = some b' :=
      ⟨_, List.getElem?_eq_getElem hj⟩
    have h1 := offsetOf_add_len_le I.controls _ b' hb'
    have h2 := hctrl _ b' hb'
    unfold ctrlSize
    omega

/-- **Initial-derivative pin.**  Two or more history points ending at `t0`, the last two not
    NaN: the initial derivative is pinned to their backward difference over the derivative
    nominal, `lbx = ubx = (h[-1] - h[-2]) / (t0 - t[-2]) / nominal_der`, for every interpolation
    method and whatever the older entries are. -/
theorem init_der_pin (t0 : Rat) (b : Blk) (hm : b.mode ≤ 2) (pt : List Rat) (pv : List (Option Rat))
    (tp vp v0 nomDer : Rat) (hl : pt.length = pv.length) (hlt : ∀ t ∈ pt, t < tp) (htp : tp < t0) :
    derPin t0 b (some (histEndingAt (pt ++ [tp]) (pv ++ [some vp]) t0 (some v0))) nomDer
      = .pin ((v0 - vp) / (t0 - tp) / nomDer) := by
  obtain ⟨pre, hk, hpre⟩ := knots_histEndingAt (pt ++ [tp]) (pv ++ [some vp]) t0 (some v0) (by simp [hl])
  have hlt' : ∀ t ∈ pt ++ [tp], t < t0 := by
    intro t ht
    rcases List.mem_append.1 ht with h | h
    · exact lt_trans (hlt t h) htp
    · have : t = tp := by simpa using h
      rw [this]; exact htp
  unfold derPin
  have hint := interpScalarX_last b.mode hm pre t0 (XVal.fin v0) .nan .nan (hpre hlt')
  simp only [hk, hint]
  simp [histEndingAt, XVal.fin]

/-- a NaN at `t0` (with a usable `h[-2]`) gives the symbolic row instead of a pin; fewer than two
    points, or a NaN at `t-1`, leave the initial derivative free -/
theorem init_der_other_cases (t0 : Rat) (b : Blk) (pt : List Rat) (pv : List (Option Rat))
    (tp vp nomDer : Rat) (v0 : Option Rat) :
    derPin t0 b (some (histEndingAt (pt ++ [tp]) (pv ++ [some vp]) t0 none)) nomDer = .symbolic ∧
    derPin t0 b (some (histEndingAt (pt ++ [tp]) (pv ++ [none]) t0 v0)) nomDer = .free ∧
    derPin t0 b (some (histEndingAt [] [] t0 v0)) nomDer = .free ∧
    derPin t0 b none nomDer = .free := by
  refine ⟨?_, ?_, ?_, rfl⟩
  · simp [derPin, histEndingAt]
  · simp [derPin, histEndingAt]
  · simp [derPin, histEndingAt]


/-! ## the pins in the vectors `transcribe()` returns -/

/-- **History pins override the bounds — in the returned vectors.**  If member `m` has a history
    value to pin for its `k`-th state / algebraic state (`pinValue … = some (some v)`, e.g.
    `history_pin_value`), then in the `lbx`/`ubx` that `transcribe()` returns the first entry of
    that variable holds `v` in both vectors, whatever its bounds, the other variables, the other
    members' histories and the initial-derivative pins are.  (Controls share their entries between
    members: there the last member with a value wins — see the model; not covered here.) -/
theorem history_pin_final (I : Inst) (r : Result) (h : transcribeBounds I = some r) (hne : NonEmpty I)
    (m k : Nat) (hm : m < I.E) (hk : k < I.states.length + I.algs.length) (b : Blk) (hh : Option Hist)
    (hkk : ((pinVars I).zip (histOf I m ++ List.replicate (pinVars I).length none))[k]? = some (b, hh))
    (v : XVal) (hv : pinValue I.t0 b hh = some (some v)) :
    r.lbx[pinIndex I m k]? = some v ∧ r.ubx[pinIndex I m k]? = some v := by
  obtain ⟨noms, lo, hi, hlo, hhi, hpm, _⟩ := transcribe_unfold I r h
  have hE : 0 < I.E := by omega
  have hll := boxArr_length true I lo hE hlo
  have hlh := boxArr_length false I hi hE hhi
  obtain ⟨bk, hbk⟩ := slot_exists I k (by rw [stateBlocks_length]; omega)
  have hposk := hne.1 bk (List.mem_of_getElem? hbk)
  obtain ⟨la, ha, lb, hb, lc, hc, sa, sc, e1, e2, e3, e4, e5⟩ :=
    pinMembers_split I noms I.E 0 lo hi r.lbx r.ubx [] r.symbolic hpm m (Nat.zero_le _) (by omega)
  have hp : pinIndex I m k = slotStart I m k := pinIndex_state I m k hk
  have hlt : slotStart I m k < totalSize I := slotStart_lt I m k bk hm hbk hposk
  -- effect of member m's own history sweep
  have hzl : ((pinVars I).zip (histOf I m ++ List.replicate (pinVars I).length none)).length
      = (pinVars I).length := zip_pad_length _ _
  have heff := history_pins_override I m _ la ha lb hb e3 k b hh hkk v hv
    (by rw [hp, e1, e2, hll, hlh]; exact ⟨hlt, hlt⟩)
    (by
      intro k' h1 h2
      rw [hzl] at h2
      exact pin_entries_distinct I m k k' bk hk h1 hbk hposk
        (fun j b' hb' => hne.2 b' (List.mem_of_getElem? hb')) h2)
  -- the derivative pins of member m do not touch it
  have hfr2 := applyDerPins_frame I m noms _ 0 lb hb lc hc sa sc e4 (pinIndex I m k) (by
    intro i hi hpi
    rw [zip_pad_length] at hi
    have ht : touches I m (slotStart I m k) := Or.inr ⟨i, hi, by rw [← hp]; simpa using hpi⟩
    have := (touches_slotStart I hne m k m bk hbk ht).2
    have hi' : i < I.states.length := hi
    rcases this with h' | h'
    · -- a derivative slot coincides with slot k only if indices agree: impossible
      rw [hp] at hpi
      simp only [Nat.zero_add] at hpi
      rw [derIndex_eq] at hpi
      obtain ⟨bd, hbd⟩ := slot_exists I
        (I.states.length + I.algs.length + I.paths.length + I.extras.length + i)
        (by rw [stateBlocks_length]; omega)
      have := (slotStart_injective I hne m k m _ bk bd hbk hbd hpi).2
      omega
    · omega)
  -- later members do not touch it
  have hfr3 := pinMembers_frame I noms _ (m + 1) lc hc r.lbx r.ubx sc r.symbolic e5 (pinIndex I m k) (by
    intro m' h1 h2 ht
    rw [hp] at ht
    have := (touches_slotStart I hne m k m' bk hbk ht).1
    omega)
  rw [hfr3.1, hfr3.2.1, hfr2.1, hfr2.2]
  exact heff


/-- **Shared control entries: the last member with a value wins.**  With the default control
    discretisation the entries of a control are shared by all ensemble members, while histories
    are per member.  `transcribe()` sweeps the members in order, so in the returned vectors the
    first entry of control `k` holds `lbx = ubx =` the history value at `t0` (over the nominal) of
    the **last** member, in member order, that has a non-NaN value — whatever the bounds and the
    earlier members' histories are.  (This is what the code does; it is stated as the behaviour,
    not as a defect: members that share a control but disagree about its value at `t0` cannot all
    be honoured.) -/
theorem shared_control_pin_last_member_wins (I : Inst) (r : Result) (h : transcribeBounds I = some r)
    (hne : NonEmpty I) (m k : Nat) (hm : m < I.E)
    (hk : ¬ k < I.states.length + I.algs.length) (hl : k < (pinVars I).length)
    (v : XVal) (hv : memberPin I m k = some (some v))
    (hlast : ∀ m', m < m' → m' < I.E → memberPin I m' k = some none) :
    r.lbx[pinIndex I m k]? = some v ∧ r.ubx[pinIndex I m k]? = some v := by
  obtain ⟨noms, lo, hi, hlo, hhi, hpm, _⟩ := transcribe_unfold I r h
  have hE : 0 < I.E := by omega
  have hll := boxArr_length true I lo hE hlo
  have hlh := boxArr_length false I hi hE hhi
  obtain ⟨la, ha, lb, hb, lc, hc, sa, sc, e1, e2, e3, e4, e5⟩ :=
    pinMembers_split I noms I.E 0 lo hi r.lbx r.ubx [] r.symbolic hpm m (Nat.zero_le _) (by omega)
  -- member m's own entry of the zipped list
  obtain ⟨b, hh, hkk, hpv⟩ : ∃ b hh,
      ((pinVars I).zip (histOf I m ++ List.replicate (pinVars I).length none))[k]? = some (b, hh) ∧
      pinValue I.t0 b hh = some (some v) := by
    unfold memberPin at hv
    cases hz : ((pinVars I).zip (histOf I m ++ List.replicate (pinVars I).length none))[k]? with
    | none => simp [hz] at hv
    | some x => obtain ⟨b, hh⟩ := x; exact ⟨b, hh, rfl, by simpa [hz] using hv⟩
  have hlt : pinIndex I m k < totalSize I := by
    have := pinIndex_ctrl_lt I hne m k hk hl
    unfold totalSize; omega
  have hzl : ((pinVars I).zip (histOf I m ++ List.replicate (pinVars I).length none)).length
      = (pinVars I).length := zip_pad_length _ _
  have heff := history_pins_override I m _ la ha lb hb e3 k b hh hkk v hpv
    (by rw [e1, e2, hll, hlh]; exact ⟨hlt, hlt⟩)
    (by
      intro k' h1 h2
      rw [hzl] at h2
      exact pinIndex_ctrl_ne I hne m m k k' hk (by omega) h1 h2)
  have hfr2 := applyDerPins_frame I m noms _ 0 lb hb lc hc sa sc e4 (pinIndex I m k) (by
    intro i hi
    rw [zip_pad_length] at hi
    simp only [Nat.zero_add]
    rw [derIndex_eq]
    exact pinIndex_ctrl_ne_slot I hne m m k _ hk hl)
  have hfr3 := pinMembers_frame_nowrite I noms _ (m + 1) lc hc r.lbx r.ubx sc r.symbolic e5 (pinIndex I m k) (by
    intro m' h1 h2
    exact ctrl_nowrite I hne m m' k hk hl (hlast m' (by omega) (by omega)))
  rw [hfr3.1, hfr3.2, hfr2.1, hfr2.2]
  exact heff

/-- ... and if no member has a value for the control, its first entry keeps the user's box -/
theorem shared_control_no_value_keeps_box (I : Inst) (r : Result) (h : transcribeBounds I = some r)
    (hne : NonEmpty I) (k : Nat) (hk : ¬ k < I.states.length + I.algs.length) (hl : k < (pinVars I).length)
    (hnone : ∀ m', m' < I.E → memberPin I m' k = some none) :
    ∃ lo hi, boxArr true I = some lo ∧ boxArr false I = some hi ∧
      r.lbx[pinIndex I 0 k]? = lo[pinIndex I 0 k]? ∧ r.ubx[pinIndex I 0 k]? = hi[pinIndex I 0 k]? := by
  obtain ⟨noms, lo, hi, hlo, hhi, hpm, _⟩ := transcribe_unfold I r h
  have := pinMembers_frame_nowrite I noms I.E 0 lo hi r.lbx r.ubx [] r.symbolic hpm (pinIndex I 0 k) (by
    intro m' _ h2
    exact ctrl_nowrite I hne 0 m' k hk hl (hnone m' (by omega)))
  exact ⟨lo, hi, hlo, hhi, this.1, this.2⟩

/-- **Entries that no pin addresses keep the user's box in the returned vectors**: every entry
    other than the first entry of a state / algebraic state / control and the initial-derivative
    entries is exactly what `box_is_users_box` describes. -/
theorem unpinned_entries_keep_box (I : Inst) (r : Result) (h : transcribeBounds I = some r) (p : Nat)
    (hp : ∀ m', m' < I.E → ¬ touches I m' p) :
    ∃ lo hi, boxArr true I = some lo ∧ boxArr false I = some hi ∧
      r.lbx[p]? = lo[p]? ∧ r.ubx[p]? = hi[p]? := by
  obtain ⟨noms, lo, hi, hlo, hhi, hpm, _⟩ := transcribe_unfold I r h
  have := pinMembers_frame I noms I.E 0 lo hi r.lbx r.ubx [] r.symbolic hpm p
    (by intro m' _ h2; exact hp m' (by omega))
  exact ⟨lo, hi, hlo, hhi, this.1, this.2.1⟩

/-- **Initial-derivative pin in the returned vectors**: when the history of state `i` of member
    `m` yields a pin (`derPin … = .pin v`, e.g. by `init_der_pin`), the entry of
    `initial_der(state i)` of member `m` holds `v` in `lbx` and `ubx`. -/
theorem init_der_pin_final (I : Inst) (r : Result) (h : transcribeBounds I = some r) (hne : NonEmpty I)
    (m i : Nat) (hm : m < I.E) (hi : i < I.states.length) (b : Blk) (hh : Option Hist)
    (hkk : (I.states.zip (histOf I m ++ List.replicate I.states.length none))[i]? = some (b, hh))
    (v : Rat) (hv : derPin I.t0 b hh (r.derNoms.getD i 1) = .pin v) :
    r.lbx[derIndex I m i]? = some (XVal.fin v) ∧ r.ubx[derIndex I m i]? = some (XVal.fin v) := by
  obtain ⟨noms, lo, hi, hlo, hhi, hpm, hnoms⟩ := transcribe_unfold I r h
  subst hnoms
  have hE : 0 < I.E := by omega
  have hll := boxArr_length true I lo hE hlo
  have hlh := boxArr_length false I hi hE hhi
  set jd := I.states.length + I.algs.length + I.paths.length + I.extras.length + i with hjd
  obtain ⟨bd, hbd⟩ := slot_exists I jd (by rw [stateBlocks_length]; omega)
  have hposd := hne.1 bd (List.mem_of_getElem? hbd)
  obtain ⟨la, ha, lb, hb, lc, hc, sa, sc, e1, e2, e3, e4, e5⟩ :=
    pinMembers_split I r.derNoms I.E 0 lo hi r.lbx r.ubx [] r.symbolic hpm m (Nat.zero_le _) (by omega)
  have hp : derIndex I m i = slotStart I m jd := derIndex_eq I m i
  have hlt : slotStart I m jd < totalSize I := slotStart_lt I m jd bd hm hbd hposd
  have l1 := applyPins_length I m _ 0 la ha lb hb e3
  have heff := applyDerPins_effect I m r.derNoms _ 0 lb hb lc hc sa sc e4 i b hh hkk v
    (by simpa using hv)
    (by simp only [Nat.zero_add]; rw [hp, l1.1, l1.2, e1, e2, hll, hlh]; exact ⟨hlt, hlt⟩)
    (by
      intro i' h1 h2
      rw [zip_pad_length] at h2
      simp only [Nat.zero_add]
      intro heq
      rw [derIndex_eq, derIndex_eq] at heq
      obtain ⟨bd', hbd'⟩ := slot_exists I
        (I.states.length + I.algs.length + I.paths.length + I.extras.length + i')
        (by rw [stateBlocks_length]; omega)
      have := (slotStart_injective I hne m _ m _ bd bd' hbd hbd' heq).2
      omega)
  simp only [Nat.zero_add] at heff
  have hfr3 := pinMembers_frame I r.derNoms _ (m + 1) lc hc r.lbx r.ubx sc r.symbolic e5 (derIndex I m i) (by
    intro m' h1 h2 ht
    rw [hp] at ht
    have := (touches_slotStart I hne m jd m' bd hbd ht).1
    omega)
  rw [hfr3.1, hfr3.2.1]
  exact heff



/-- `nominal · lbx[idx]` is the user's bound (the form in which the property is stated) -/
theorem nominal_times_box (lower : Bool) (I : Inst) (arr : List XVal) (hE : 0 < I.E)
    (h : boxArr lower I = some arr) (m j c i : Nat) (b : Blk) (hm : m < I.E)
    (hb : (stateBlocks I)[j]? = some b) (hwf : WF b) (hc : c < b.size) (hi : i < b.n)
    (hν : b.nom.at c ≠ 0) :
    (arr[stateIndex I m j c i]?).map (fun x => xmulPos x (b.nom.at c))
      = sideAt b (sideOf lower b) (fillOf lower) c i := by
  rw [box_is_users_box lower I arr hE h m j c i b hm hb hwf hc hi]
  unfold scaledBound
  cases sideAt b (sideOf lower b) (fillOf lower) c i with
  | none => rfl
  | some x =>
    cases x with
    | nan => rfl
    | e v => simp [xdivPos, xmulPos, EVal.mulPos_divPos v _ hν]

/-! ## malformed bounds are rejected, not silently mis-assigned -/

/-- a vector bound whose length is neither the variable's size nor 1, and a 1-D Timeseries bound
    on a vector variable with several stamps, raise (NumPy cannot broadcast them) -/
theorem malformed_side_rejected (b : Blk) (fill : XVal) :
    (∀ xs : List EVal, xs.length ≠ b.size → xs.length ≠ 1 → blockWrite b (.vec xs) fill = none) ∧
    (∀ (t : List Rat) (vs : List EVal), b.scalarT = false → 2 ≤ b.size → 2 ≤ b.n →
        blockWrite b (.ts1 t vs) fill = none) := by
  constructor
  · intro xs h1 h2
    unfold blockWrite sideVals
    simp only [h1, if_false]
    match xs, h2 with
    | [], _ => rfl
    | [x], h2 => simp at h2
    | _ :: _ :: _, _ => rfl
  · intro t vs hs h2 hn
    have hsv : sideVals b (.ts1 t vs) fill = none ∨
        ∃ arr, sideVals b (.ts1 t vs) fill = some (some arr) ∧ arr.length = b.n := by
      simp only [sideVals]
      split
      · exact Or.inl rfl
      · simp only [hs, Bool.false_eq_true, if_false]
        cases harr : interpArrayX b.mode (toKnots t vs) fill fill b.times with
        | none => exact Or.inl rfl
        | some arr => exact Or.inr ⟨arr, rfl, interpArrayX_length _ _ _ _ _ _ harr⟩
    unfold blockWrite
    rcases hsv with h | ⟨arr, h, hal⟩
    · rw [h]
    · rw [h]
      have hne : arr.length ≠ b.len := by
        rw [hal, Blk.len_eq]
        intro h'
        have : b.n * 2 ≤ b.n * b.size := Nat.mul_le_mul_left _ h2
        omega
      simp only [hne, if_false]
      match arr, hal with
      | [], _ => rfl
      | [x], hal => simp at hal; omega
      | _ :: _ :: _, _ => rfl

/-- a rejected slot makes the whole transcription raise (no partially filled bound vector) -/
theorem malformed_bound_raises (lower : Bool) (I : Inst) (hE : 0 < I.E) (j : Nat) (b : Blk)
    (hb : (stateBlocks I)[j]? = some b)
    (hbad : blockWrite b (sideOf lower b) (fillOf lower) = none) : boxArr lower I = none := by
  rw [boxArr_closed lower I hE]
  have hnone : closedPass lower (stateBlocks I) = none := by
    unfold closedPass
    cases hm : (stateBlocks I).mapM (blockVals lower) with
    | none => rfl
    | some vs =>
      have := mapM_some_getElem? _ _ _ hm j b hb
      have hbv : blockVals lower b = none := by simp [blockVals, hbad]
      rw [hbv] at this
      have hl := mapM_some_length _ _ _ hm
      have hj : j < vs.length := by rw [hl]; exact (List.getElem?_eq_some_iff.1 hb).1
      rw [List.getElem?_eq_getElem hj] at this
      cases this
  rw [hnone]
  cases closedPass lower I.controls <;> rfl


/-! ## several sources: the intersection applies -/

/-- **Where several sources give bounds their intersection applies**: a value respects the
    merged scalar bounds (`max` of the lower bounds, `min` of the upper bounds, as
    `ModelicaMixin.bounds` forms them) iff it respects every source.  (Timeseries / vector
    sources: `merge_bounds`, theorem `merge_elementwise` of C19.) -/
theorem intersection_of_sources (los his : List EVal) (x : EVal) :
    (intersectLo los ≤ x ↔ ∀ l ∈ los, l ≤ x) ∧ (x ≤ intersectHi his ↔ ∀ u ∈ his, x ≤ u) := by
  have hlo : ∀ (acc : EVal) (l : List EVal), (l.foldl EVal.max acc ≤ x ↔ acc ≤ x ∧ ∀ a ∈ l, a ≤ x) := by
    intro acc l
    induction l generalizing acc with
    | nil => simp
    | cons a l ih =>
      rw [List.foldl_cons, ih, EVal.max_eq, max_le_iff]
      simp only [List.mem_cons, forall_eq_or_imp]
      tauto
  have hhi : ∀ (acc : EVal) (l : List EVal), (x ≤ l.foldl EVal.min acc ↔ x ≤ acc ∧ ∀ a ∈ l, x ≤ a) := by
    intro acc l
    induction l generalizing acc with
    | nil => simp
    | cons a l ih =>
      rw [List.foldl_cons, ih, EVal.min_eq, le_min_iff]
      simp only [List.mem_cons, forall_eq_or_imp]
      tauto
  constructor
  · rw [intersectLo, hlo]
    have : EVal.ninf ≤ x := by simp [EVal.le_def, EVal.le]
    simp [this]
  · rw [intersectHi, hhi]
    have : x ≤ EVal.pinf := by cases x <;> simp [EVal.le_def, EVal.le]
    simp [this]

/-- **Only a Boolean variable has a default box**: `ModelicaMixin.bounds()[v]` contains `x` iff `x`
    respects the user's pair when there is one, the box `(0, 1)` when there is none and `v` is
    declared `Boolean`, nothing at all otherwise — and, in every case, the declared `min` / `max`.
    In particular an `Integer` variable without a user entry gets exactly its declared `(min, max)`
    (`(-inf, inf)` when none is declared). -/
theorem modelica_box_is_declared_sources (isBoolean : Bool) (user : Option (EVal × EVal)) (mn mx x : EVal) :
    ((modelicaBox isBoolean user mn mx).1 ≤ x ∧ x ≤ (modelicaBox isBoolean user mn mx).2 ↔
      ((user.getD (defaultBox isBoolean)).1 ≤ x ∧ x ≤ (user.getD (defaultBox isBoolean)).2) ∧ mn ≤ x ∧ x ≤ mx) ∧
    modelicaBox false none mn mx = (mn, mx) := by
  constructor
  · simp only [modelicaBox, EVal.max_eq, EVal.min_eq, max_le_iff, le_min_iff]
    tauto
  · simp only [modelicaBox, defaultBox, Option.getD_none, EVal.max_eq, EVal.min_eq]
    have h1 : max EVal.ninf mn = mn := max_eq_right (by simp [EVal.le_def, EVal.le])
    have h2 : min EVal.pinf mx = mx := min_eq_right (by cases mx <;> simp [EVal.le_def, EVal.le])
    simp [h1, h2]

/-! ## link to C19 -/

/-- **A finite-valued Timeseries bound is interpolated by the C19 interpolant**: the extended
    interpolation used for bounds and histories (values may be ±inf / NaN) coincides with
    `RtcVerif.Interp.interpCore` (exact at knots, chord / previous / next value between knots,
    fills outside — `Props/C19.lean`) whenever the values are finite, in every mode, error cases
    included. -/
theorem timeseries_bound_is_c19_interp (mode : Nat) (ks : Interp.Knots) (fl fr : XVal) (t : Rat) :
    toOut (interpCoreX mode (liftKnots ks) fl fr t) = Interp.interpCore mode ks (some fl) (some fr) t :=
  interpCoreX_fin mode ks fl fr t

/-! ## the index allocation and the history block in the shape of the source

`Model/C05Layout.lean` (`C05.L`) follows `discretize_states`, `discretize_control(s)`, the merge of the
index tables and the history loops of `transcribe()` statement by statement (running `offset`, cache of
the shared control slices, `count = max(count, stop)`, shift by `control_size`); on every run
`Gen/LayoutPins.lean` is regenerated from the source and proved equal to `C05.L`.  The theorems below
connect `C05.L` to the layout (`stateIndex`, `ctrlIndex`) and the pins (`applyPins`, `derPin`) that the
theorems above are about. -/

/-- **The code's index table is the layout model** (states, algebraic states, path variables, extra
    variables, initial derivatives): `ensemble_member_size` is `memberSize`, and the `j`-th entry of
    `self.__indices[m]` (insertion order = order of the bound pass) is a slice / int whose entries
    are exactly `stateIndex I m j c i` — start plus the component-major position `c · n + i`. -/
theorem code_layout_is_stateIndex (I : Inst) (m j : Nat) (b : Blk) (hE : 0 < I.E)
    (hsz : ∀ b ∈ I.controls, b.size = 1) (hex : L.ExtrasOneStamp I) (hb : (stateBlocks I)[j]? = some b) :
    L.memberSizeK I = memberSize I ∧
    ∃ s, ((L.stateSlotsK I m)[j]?).map (L.shiftK (L.ctrlSlotsK I).2) = some s ∧ s.stop = s.first + b.len ∧
      ∀ c i, s.first + (c * b.n + i) = stateIndex I m j c i :=
  ⟨L.memberSizeK_eq I hex, L.stateSlot_is_stateIndex I m j b hE hsz hex hb⟩

/-- **The code's control table is the layout model**: `count` of `discretize_controls` is `ctrlSize`
    and every member is handed the same slice for control `j` (the cached one of member 0), whose
    entries are `ctrlIndex I j i`. -/
theorem code_layout_is_ctrlIndex (I : Inst) (hE : 0 < I.E) (hsz : ∀ b ∈ I.controls, b.size = 1)
    (m j : Nat) (b : Blk) (hm : m < I.E) (hb : I.controls[j]? = some b) :
    (L.ctrlSlotsK I).2 = ctrlSize I ∧
    ∃ s, ((L.ctrlSlotsK I).1[j]?).bind (·[m]?) = some s ∧ s.stop = s.first + b.n ∧
      ∀ i, s.first + i = ctrlIndex I j i :=
  L.ctrlSlot_is_ctrlIndex I hE hsz m j b hm hb

/-- **Every entry after the controls lies in exactly one slice of the code's table**: existence ... -/
theorem code_layout_covers (I : Inst) (hE : 0 < I.E) (hsz : ∀ b ∈ I.controls, b.size = 1)
    (hex : L.ExtrasOneStamp I) (p : Nat) (h1 : ctrlSize I ≤ p) (h2 : p < totalSize I) :
    ∃ (m j : Nat) (b : Blk) (s : L.Slot), m < I.E ∧ (stateBlocks I)[j]? = some b ∧
      ((L.stateSlotsK I m)[j]?).map (L.shiftK (L.ctrlSlotsK I).2) = some s ∧ s.first ≤ p ∧ p < s.stop := by
  obtain ⟨m, j, c, i, b, e, hp⟩ := stateIndex_surjective I p h1 h2
  obtain ⟨s, s1, s2, s3⟩ := L.stateSlot_is_stateIndex I m j b hE hsz hex e.hb
  have := s3 c i
  have := index_lt b c i e.hc e.hi
  exact ⟨m, j, b, s, e.hm, e.hb, s1, by omega, by omega⟩

/-- ... and uniqueness: the slices of different (member, variable) do not overlap. -/
theorem code_layout_disjoint (I : Inst) (hE : 0 < I.E) (hsz : ∀ b ∈ I.controls, b.size = 1)
    (hex : L.ExtrasOneStamp I) (m j m' j' : Nat) (b b' : Blk) (s s' : L.Slot) (p : Nat)
    (hm : m < I.E) (hm' : m' < I.E)
    (hb : (stateBlocks I)[j]? = some b) (hb' : (stateBlocks I)[j']? = some b')
    (hs : ((L.stateSlotsK I m)[j]?).map (L.shiftK (L.ctrlSlotsK I).2) = some s)
    (hs' : ((L.stateSlotsK I m')[j']?).map (L.shiftK (L.ctrlSlotsK I).2) = some s')
    (hp : s.first ≤ p ∧ p < s.stop) (hp' : s'.first ≤ p ∧ p < s'.stop) : m = m' ∧ j = j' := by
  obtain ⟨t, t1, t2, t3⟩ := L.stateSlot_is_stateIndex I m j b hE hsz hex hb
  obtain ⟨t', t1', t2', t3'⟩ := L.stateSlot_is_stateIndex I m' j' b' hE hsz hex hb'
  rw [hs] at t1; rw [hs'] at t1'
  cases t1; cases t1'
  obtain ⟨c, i, hc, hi, hr⟩ := comp_time_exists b.n b.size (p - s.first) (by rw [← Blk.len_eq]; omega)
  obtain ⟨c', i', hc', hi', hr'⟩ := comp_time_exists b'.n b'.size (p - s'.first) (by rw [← Blk.len_eq]; omega)
  have h := stateIndex_injective I m j c i m' j' c' i' b b' ⟨hm, hb, hc, hi⟩ ⟨hm', hb', hc', hi'⟩
    (by rw [← t3 c i, ← t3' c' i']; omega)
  exact ⟨h.1, h.2.1⟩

/-- **The history-pin iteration of the code is one step of `applyPins`, at `pinIndex`**: the entry
    `self.__indices_as_lists[m][variable][0]` of the `k`-th variable of the loop
    (`states ++ algs ++ controls`) is the model's `pinIndex I m k`, and the loop body
    (interpolate at `t0` with NaN fills, divide by the nominal, write both bounds unless NaN) does to
    `lbx`/`ubx` what `applyPins` does — so `history_pin_value`, `history_nan_no_pin`,
    `history_pins_override`, `history_pin_final` speak about the code's loop body. -/
theorem code_pin_is_applyPins (I : Inst) (m k : Nat) (b : Blk) (h : Option Hist) (lo hi : List XVal)
    (hE : 0 < I.E) (hm : m < I.E) (hex : L.ExtrasOneStamp I) (hsz : ∀ b ∈ I.controls, b.size = 1)
    (hk : k < (pinVars I).length) :
    ∃ s, L.pinSlot I m k = some s ∧ s.first = pinIndex I m k ∧
      L.pinStepK I.t0 b h s.first lo hi = applyPins I m [(b, h)] k (lo, hi) := by
  obtain ⟨s, h1, h2⟩ := L.pinSlot_first I m k hE hm hex hsz hk
  exact ⟨s, h1, h2, by rw [h2]; exact L.pinStepK_eq I m k b h lo hi⟩

/-- **The initial-derivative iteration of the code is `derPin`, at `derIndex`** (`continue` on a
    short history or a NaN at `t-1`, the assertion `times[-1] == t0`, the symbolic row on a NaN at
    `t0`, otherwise the backward difference over the derivative's own nominal). -/
theorem code_der_is_derPin (I : Inst) (m i : Nat) (b : Blk) (h : Option Hist) (nomDer : Rat)
    (hE : 0 < I.E) (hex : L.ExtrasOneStamp I) (hsz : ∀ b ∈ I.controls, b.size = 1) (hi : i < I.states.length) :
    L.derStepK I.t0 b h nomDer = derPin I.t0 b h nomDer ∧
    ∃ s, L.derSlot I m i = some s ∧ s.first = derIndex I m i :=
  ⟨L.derStepK_eq I.t0 b h nomDer, L.derSlot_first I m i hex hE hsz hi⟩

/-- **The nominal of an initial derivative in the code is `derNominal`**: the state's nominal over
    the last history step of member 0 (when that history has more than one point and does not start
    at `t0`), otherwise over the first optimisation step, or the state's nominal itself when the
    step is not positive; the assertion `h.times[-1] == times[0]` is the `none` case. -/
theorem code_der_nominal_is_derNominal (b : Blk) (h0 : Option Hist) :
    L.derNominalK b h0 = derNominal b h0 := L.derNominalK_eq b h0

/-! ## bounds given under an alias of the variable -/

/-- **A bound pair keyed by an alias bounds the canonical variable as stated**: for a plain alias
    the pair is the variable's pair; for a negated alias `a = -x` the stored pair `(l, h)` satisfies
    `l ≤ x ≤ h ↔ lo ≤ -x ≤ hi` for every `x` — whatever the sides are (0, ∓inf included), and in
    particular a side that is exactly 0 stays the finite bound 0 (it does not turn into "no bound"). -/
theorem alias_bounds_canonical (negated : Bool) (lo hi : EVal) (x : Rat) :
    ∃ l h, aliasSides negated (.sc lo) (.sc hi) = (.sc l, .sc h) ∧
      ((l ≤ EVal.fin x ∧ EVal.fin x ≤ h) ↔
        (lo ≤ EVal.fin (if negated then -x else x) ∧ EVal.fin (if negated then -x else x) ≤ hi)) ∧
      (negated = true → hi = EVal.fin 0 → l = EVal.fin 0) ∧
      (negated = true → lo = EVal.fin 0 → h = EVal.fin 0) := by
  cases negated with
  | false => exact ⟨lo, hi, rfl, by simp, by simp, by simp⟩
  | true =>
    refine ⟨hi.neg, lo.neg, rfl, ?_, ?_, ?_⟩
    · simp only [if_true]
      rw [EVal.neg_le_fin_iff, EVal.fin_le_neg_iff]
      exact and_comm
    · intro _ h; subst h; simp [EVal.neg]
    · intro _ h; subst h; simp [EVal.neg]

/-- reading the pair back through the same alias (`AliasDict.__getitem__` swaps and negates again)
    returns the user's pair, for every kind of side -/
theorem alias_sides_roundtrip (negated : Bool) (lo hi : Side) :
    aliasSides negated (aliasSides negated lo hi).1 (aliasSides negated lo hi).2 = (lo, hi) := by
  cases negated <;> simp [aliasSides, Side.neg_neg]

/-- per component: a vector / Timeseries pair under a negated alias is negated entry by entry and
    the sides change places -/
theorem alias_sides_entries (lo hi : List EVal) (t : List Rat) :
    aliasSides true (.vec lo) (.vec hi) = (.vec (hi.map EVal.neg), .vec (lo.map EVal.neg)) ∧
    aliasSides true (.ts1 t lo) (.ts1 t hi) = (.ts1 t (hi.map EVal.neg), .ts1 t (lo.map EVal.neg)) ∧
    aliasSides true .none (.sc (.fin 0)) = (.sc (.fin 0), .none) := by
  refine ⟨rfl, rfl, ?_⟩
  simp [aliasSides, Side.neg, EVal.neg]

/-! ## non-vacuity: a concrete instance (two members, a shared control on a coarser grid, a vector
path variable with a 2-D Timeseries bound and per-component nominals, a vector extra variable) -/

def exI : Inst :=
  { t0 := 0, E := 2,
    states := [{ size := 1, times := [0, 1, 5/2, 3], scalarT := false, nom := .sc 10,
                 lo := .sc (.fin (-5)), hi := .ts1 [0, 1, 5/2, 3] [.fin 1, .fin 2, .fin 3, .fin 4], mode := 0 }],
    algs := [],
    controls := [{ size := 1, times := [0, 5/2, 3], scalarT := false, nom := .sc 2,
                   lo := .sc (.fin (-1)), hi := .sc (.fin 1), mode := 0 }],
    paths := [{ size := 2, times := [0, 1, 5/2, 3], scalarT := false, nom := .vec [1, 4],
                lo := .vec [.fin 0, .fin (-1)],
                hi := .ts2 [0, 3] [[.fin 1, .fin 100], [.fin 4, .fin 400]], mode := 0 }],
    extras := [{ size := 3, times := [0], scalarT := true, nom := .vec [1, 2, 4],
                 lo := .sc (.fin (-3)), hi := .vec [.fin 1, .fin 2, .fin 3], mode := 0 }],
    hist := [[some (histEndingAt [-1] [some 1] 0 (some 2)), none], [none, some (histEndingAt [] [] 0 (some (1/2)))]] }

-- the hypotheses of the theorems hold for it ...
example : 0 < exI.E ∧ (boxArr true exI).isSome = true ∧ (boxArr false exI).isSome = true ∧
    totalSize exI = 35 := by decide +kernel

example : ∀ b ∈ stateBlocks exI, WF b := by
  intro b hb
  simp [stateBlocks, exI, initDerBlk] at hb
  rcases hb with rfl | rfl | rfl | rfl <;> simp [WF, Blk.n]

-- ... entry (member 1, path variable, component 1, stamp 2) of ubx is 350 / 4 at index 29 ...
example : stateIndex exI 1 1 1 2 = 29 ∧
    (boxArr false exI).bind (·[29]?) = some (XVal.fin (175/2)) ∧
    scaledBound false { size := 2, times := [0, 1, 5/2, 3], scalarT := false, nom := .vec [1, 4],
                        lo := .vec [.fin 0, .fin (-1)],
                        hi := .ts2 [0, 3] [[.fin 1, .fin 100], [.fin 4, .fin 400]], mode := 0 } 1 2
      = some (XVal.fin (175/2)) := by decide +kernel

-- ... and the pins: x(t0) = 2/10 for member 0 (index 3), its initial derivative
-- (2 - 1)/(0 - (-1))/10 (index 18), the shared control pinned by member 1 to (1/2)/2 (index 0)
example : (transcribeBounds exI).map (fun r => [r.lbx[3]?, r.ubx[3]?, r.lbx[18]?, r.ubx[18]?, r.lbx[0]?, r.ubx[0]?])
    = some [some (XVal.fin (1/5)), some (XVal.fin (1/5)), some (XVal.fin (1/10)), some (XVal.fin (1/10)),
            some (XVal.fin (1/4)), some (XVal.fin (1/4))] := by decide +kernel


-- ... the source-shaped allocation on this instance: the hypotheses hold, the control gets one shared
-- slice [0, 3), member 1's slots are x [19, 23), path variable [23, 31), extra variable [31, 34), der 34
example : L.ExtrasOneStamp exI ∧ (∀ b ∈ exI.controls, b.size = 1) := by
  constructor
  · intro b hb; simp [exI] at hb; subst hb; rfl
  · intro b hb; simp [exI] at hb; subst hb; rfl

example : L.ctrlSlotsK exI = ([[L.Slot.slice 0 3, L.Slot.slice 0 3]], 3) ∧
    (L.stateSlotsK exI 1).map (L.shiftK (L.ctrlSlotsK exI).2)
      = [L.Slot.slice 19 23, L.Slot.slice 23 31, L.Slot.slice 31 34, L.Slot.int 34] ∧
    L.pinSlot exI 1 1 = some (L.Slot.slice 0 3) ∧ L.derSlot exI 0 0 = some (L.Slot.int 18) := by decide +kernel

-- ... and the source-shaped pin steps: member 0 pins x(t0) = 2/10 at its first entry, the initial
-- derivative is (2 - 1)/(0 - (-1))/nomDer
example : L.pinStepK 0 (exI.states.getD 0 (initDerBlk 0)) (some (histEndingAt [-1] [some 1] 0 (some 2))) 1
      [XVal.ninf, XVal.ninf] [XVal.pinf, XVal.pinf]
      = some ([XVal.ninf, XVal.fin (1/5)], [XVal.pinf, XVal.fin (1/5)]) ∧
    L.derStepK 0 (exI.states.getD 0 (initDerBlk 0)) (some (histEndingAt [-1] [some 1] 0 (some 2))) 10
      = DerPin.pin (1/10) ∧
    L.derStepK 0 (exI.states.getD 0 (initDerBlk 0)) (some (histEndingAt [-1] [some 1] 0 none)) 10
      = DerPin.symbolic := by decide +kernel


-- ... and the derivative nominal: history step 1 → 10 / 1; no history → first step 1; a history that does
-- not end at the first stamp trips the assertion
example : L.derNominalK (exI.states.getD 0 (initDerBlk 0)) (some (histEndingAt [-2] [some 1] 0 (some 2))) = some 5 ∧
    L.derNominalK (exI.states.getD 0 (initDerBlk 0)) none = some 10 ∧
    L.derNominalK (exI.states.getD 0 (initDerBlk 0)) (some (histEndingAt [-2] [some 1] (-1) (some 2))) = none := by
  decide +kernel

-- bounds()["negative_alias"] = (-2, 0) with negative_alias = -x: x is boxed by [0, 2]
example : aliasSides true (.sc (.fin (-2))) (.sc (.fin 0)) = (.sc (.fin 0), .sc (.fin 2)) := by decide +kernel

-- Integer n(min=0, max=5) without a user entry: (0, 5), not the Boolean box; Boolean b: (0, 1);
-- Integer k(min=2, max=4): (2, 4), a non-empty box
example : modelicaBox false none (.fin 0) (.fin 5) = (.fin 0, .fin 5) ∧
    modelicaBox true none .ninf .pinf = (.fin 0, .fin 1) ∧
    modelicaBox false none (.fin 2) (.fin 4) = (.fin 2, .fin 4) ∧
    modelicaBox true (some (.fin 0, .fin 0)) .ninf (.fin 1) = (.fin 0, .fin 0) := by decide +kernel

-- shared control, two members with different histories: member 0 says u(t0) = 3, member 1 says 1/2;
-- the returned vectors hold member 1's value (1/2)/2 = 1/4; with member 1's value NaN, member 0's 3/2
def exShared (v1 : Option Rat) : Inst :=
  { exI with hist := [[none, some (histEndingAt [] [] 0 (some 3))],
                      [none, some (histEndingAt [-1] [some 7] 0 v1)]] }

example : memberPin (exShared (some (1/2))) 0 1 = some (some (XVal.fin (3/2))) ∧
    memberPin (exShared (some (1/2))) 1 1 = some (some (XVal.fin (1/4))) ∧
    (transcribeBounds (exShared (some (1/2)))).map (fun r => [r.lbx[0]?, r.ubx[0]?])
      = some [some (XVal.fin (1/4)), some (XVal.fin (1/4))] ∧
    memberPin (exShared none) 1 1 = some none ∧
    (transcribeBounds (exShared none)).map (fun r => [r.lbx[0]?, r.ubx[0]?])
      = some [some (XVal.fin (3/2)), some (XVal.fin (3/2))] := by decide +kernel

example : NonEmpty (exShared none) := by
  constructor
  · intro b hb
    simp [stateBlocks, exShared, exI, initDerBlk] at hb
    rcases hb with rfl | rfl | rfl | rfl <;> simp [Blk.len, Blk.n]
  · intro b hb
    simp [exShared, exI] at hb
    subst hb; simp [Blk.len, Blk.n]

-- F11 as it was (time-major ravel) would have put 100 at component 0, stamp 1; the model has 2:
def exF11 : Inst :=
  { t0 := 0, E := 1, states := [], algs := [], controls := [], extras := [], hist := [],
    paths := [{ size := 2, times := [0, 1, 2], scalarT := false, nom := .sc 1,
                lo := .ts2 [0, 1, 2] [[.fin 1, .fin 100], [.fin 2, .fin 200], [.fin 3, .fin 300]],
                hi := .none, mode := 0 }] }

example : boxArr true exF11
    = some [XVal.fin 1, XVal.fin 2, XVal.fin 3, XVal.fin 100, XVal.fin 200, XVal.fin 300] := by decide +kernel

end RtcVerif.C05
