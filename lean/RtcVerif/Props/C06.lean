import RtcVerif.Model.C06
import RtcVerif.Proofs.C06Lemmas
/-!
# C06 — objective and user constraints are transcribed as given, at every time stamp

Theorems over the assembly model of `Model/C06.lean`, generic in the user functions
(`J`, `Jpath`, `Gpath`, the point-constraint values) and in the environment `env m i` of member
`m` at collocation index `i`; any ensemble size, any number of time stamps `n >= 1`, any number
of DAE rows, any constraint sizes and bound kinds.  Helper lemmas: `Proofs/C06Lemmas.lean`.
-/
namespace RtcVerif.C06
open RtcVerif RtcVerif.Interp

/-- **The minimised function** is `Σ_m prob_m · (J_m + Σ_{i=0}^{n-1} Jpath(env m i))`: the `t0`
    instance of the path objective is included and the probability multiplies the whole sum —
    whatever `J`, `Jpath`, the DAE rows, path-constraint rows and delay rows in the mapped
    output are. -/
theorem C06_objective {Env : Type} (E n nd : Nat) (hn : 1 ≤ n) (prob J : Nat → Rat)
    (Jpath : Env → Rat) (G : Env → List Rat) (env : Nat → Nat → Env)
    (dae delay : Nat → Nat → List Rat) (hdae : ∀ m i, (dae m i).length = nd) :
    objectiveCode ((List.range E).map prob)
      ((List.range E).map (fun m =>
        fMember (J m) nd 1 [Jpath (env m 0)]
          ((List.range (n - 1)).map (fun i =>
            stepColumn (dae m i) [Jpath (env m (i + 1))] (G (env m (i + 1))) (delay m i)))))
      = objectiveSpec E n prob J Jpath env := by
  unfold objectiveCode objectiveSpec
  rw [List.zipWith_map, List.zipWith_self]
  congr 1
  apply List.map_congr_left
  intro m _
  congr 1
  unfold fMember
  rw [if_pos (by omega)]
  congr 1
  rw [vecSlice_jpath nd 1 (n - 1) (dae m) (fun i => [Jpath (env m (i + 1))]) _ _ (hdae m) (fun _ => rfl)]
  rw [sumList_flatMap_singleton (fun i => Jpath (env m (i + 1)))]
  obtain ⟨k, rfl⟩ : ∃ k, n = k + 1 := ⟨n - 1, by omega⟩
  rw [sumList_map_range_succ (fun i => Jpath (env m i)) k]
  simp

/-- without a path objective (`path_objective` of size 0) only `Σ_m prob_m · J_m` remains -/
theorem C06_objective_without_path_objective (E nd : Nat) (prob J : Nat → Rat)
    (init : Nat → List Rat) (cols : Nat → List (List Rat)) :
    objectiveCode ((List.range E).map prob)
      ((List.range E).map (fun m => fMember (J m) nd 0 (init m) (cols m)))
      = sumList ((List.range E).map (fun m => prob m * J m)) := by
  unfold objectiveCode
  rw [List.zipWith_map, List.zipWith_self]
  simp [fMember]

/-- **Every path constraint at every collocation time including `t0`, each once, with the
    member's own bounds**: the rows of a member are, time index by time index, the rows of
    `Gpath(env i)` in their order; the lower / upper bound lists are, time index by time index,
    the documented bound column (scalar; vector per row or broadcast; Timeseries interpolated at
    the collocation time with −inf / +inf outside its range) — the time-major order of the
    code's `transpose().ravel()`. -/
theorem C06_path_constraints_everywhere {Env : Type} (nd nj R : Nat) (times : List Rat)
    (hn : 1 ≤ times.length) (env : Nat → Env) (G : Env → List Rat) (hG : ∀ e, (G e).length = R)
    (dae jp dl : Nat → List Rat) (hdae : ∀ i, (dae i).length = nd) (hjp : ∀ i, (jp i).length = nj)
    (J : Rat) (init : List Rat) (points : List PointCon) (paths : List PathCon)
    (hne : paths ≠ []) (hwf : ∀ c ∈ paths, c.lb.WF ∧ c.ub.WF) (rows : Rows)
    (h : pathRows nd nj R times
        ⟨J, init, G (env 0),
          (List.range (times.length - 1)).map (fun i =>
            stepColumn (dae i) (jp i) (G (env (i + 1))) (dl i)), points, paths⟩ = some rows) :
    rows.g = (List.range times.length).flatMap (fun i => G (env i)) ∧
    rows.lb = (List.range times.length).flatMap (pathBoundCol times true paths) ∧
    rows.ub = (List.range times.length).flatMap (pathBoundCol times false paths) := by
  unfold pathRows at h
  have hemp : paths.isEmpty = false := by
    cases paths with
    | nil => exact absurd rfl hne
    | cons _ _ => rfl
  simp only [hemp, Bool.false_eq_true, if_false] at h
  cases hL : pathBoundMatrix times true paths with
  | none => simp [hL] at h
  | some L =>
    cases hU : pathBoundMatrix times false paths with
    | none => simp [hL, hU] at h
    | some U =>
      simp only [hL, hU, Option.some.injEq] at h
      subst h
      refine ⟨?_, ?_, ?_⟩
      · show G (env 0) ++ vecSlice (nd + nj) R _ = _
        rw [vecSlice_gpath nd nj R (times.length - 1) dae jp (fun i => G (env (i + 1))) dl hdae hjp
          (fun i => hG _)]
        exact init_append_steps (fun i => G (env i)) times.length hn
      · exact pathBoundMatrix_ravel times true paths L hL (fun c hc => (hwf c hc).1)
      · exact pathBoundMatrix_ravel times false paths U hU (fun c hc => (hwf c hc).2)

/-- the three lists are aligned: entry `i·R + r` of `g`, `lbg`, `ubg` belongs to row `r` at time
    index `i` (when the constraint sizes add up to the `R` rows of the expression vector) -/
theorem C06_path_rows_aligned {Env : Type} (R : Nat) (times : List Rat) (env : Nat → Env)
    (G : Env → List Rat) (hG : ∀ e, (G e).length = R) (paths : List PathCon)
    (hR : ∀ i, (pathBoundCol times true paths i).length = R ∧ (pathBoundCol times false paths i).length = R)
    (i r : Nat) (hi : i < times.length) (hr : r < R) :
    ((List.range times.length).flatMap (fun i => G (env i))).getD (i * R + r) 0 = (G (env i)).getD r 0 ∧
    ((List.range times.length).flatMap (pathBoundCol times true paths)).getD (i * R + r) .nan
      = (pathBoundCol times true paths i).getD r .nan ∧
    ((List.range times.length).flatMap (pathBoundCol times false paths)).getD (i * R + r) .nan
      = (pathBoundCol times false paths i).getD r .nan :=
  ⟨flatMap_range_getD _ R 0 (fun v => hG _) _ i r hi hr,
   flatMap_range_getD _ R .nan (fun v => (hR v).1) _ i r hi hr,
   flatMap_range_getD _ R .nan (fun v => (hR v).2) _ i r hi hr⟩

/-- a member without path constraints contributes no path rows -/
theorem C06_no_path_constraints (nd nj R : Nat) (times : List Rat) (me : MemberEval)
    (h : me.paths = []) : pathRows nd nj R times me = some ⟨[], [], []⟩ := by
  simp [pathRows, h]

/-- **Every point constraint exactly once, with its own bounds**: the rows are the constraint
    values in order; scalar bounds and one-element arrays are broadcast over vector constraints,
    arrays of the right length are used row by row. -/
theorem C06_point_constraints_once (pts : List PointCon)
    (hok : ∀ p ∈ pts, 1 ≤ p.g.length ∧ p.lb.pointOk p.g.length ∧ p.ub.pointOk p.g.length)
    (rows : Rows) (h : pointRows pts = some rows) :
    rows.g = pts.flatMap (·.g) ∧
    rows.lb = pts.flatMap (fun p => (List.range p.g.length).map (pointBoundAt p.lb)) ∧
    rows.ub = pts.flatMap (fun p => (List.range p.g.length).map (pointBoundAt p.ub)) := by
  unfold pointRows at h
  cases hl : mapMOpt (fun p => pointBound p.g.length p.lb) pts with
  | none => simp [hl] at h
  | some lbs =>
    cases hu : mapMOpt (fun p => pointBound p.g.length p.ub) pts with
    | none => simp [hl, hu] at h
    | some ubs =>
      simp only [hl, hu, Option.some.injEq] at h
      subst h
      refine ⟨by simp [List.flatMap_def], ?_, ?_⟩
      · exact pointBounds_flatten pts (·.lb) lbs hl (fun p hp => ⟨(hok p hp).1, (hok p hp).2.1⟩)
      · exact pointBounds_flatten pts (·.ub) ubs hu (fun p hp => ⟨(hok p hp).1, (hok p hp).2.2⟩)

/-- **Shape mismatch is rejected**: a vector constraint (`s > 1`) with an array bound whose length
    is neither 1 nor `s` makes the transcription raise, whichever side the bound is on and
    wherever the constraint stands in the list. -/
theorem C06_point_shape_mismatch_rejected (pts : List PointCon) (p : PointCon) (hp : p ∈ pts)
    (vs : List XVal) (hs : 1 < p.g.length) (h1 : vs.length ≠ 1) (h2 : vs.length ≠ p.g.length)
    (hb : p.lb = .vec vs ∨ p.ub = .vec vs) : pointRows pts = none := by
  unfold pointRows
  have hnone : pointBound p.g.length (.vec vs) = none := by simp [pointBound, hs, h1, h2]
  rcases hb with hb | hb
  · rw [mapMOpt_none (fun p => pointBound p.g.length p.lb) pts p hp (by show pointBound p.g.length p.lb = none; rw [hb]; exact hnone)]
  · rw [mapMOpt_none (fun p => pointBound p.g.length p.ub) pts p hp (by show pointBound p.g.length p.ub = none; rw [hb]; exact hnone)]
    cases mapMOpt (fun p => pointBound p.g.length p.lb) pts <;> rfl

/-- a path-constraint array bound that NumPy cannot broadcast (length neither 1 nor the number
    of rows) is rejected as well -/
theorem C06_path_shape_mismatch_rejected (s : Nat) (times : List Rat) (fill : XVal) (vs : List XVal)
    (h1 : vs.length ≠ 1) (h2 : vs.length ≠ s) : pathBlock s times fill (.vec vs) = none := by
  simp [pathBlock, h1, h2]

/-- **The reported objective value**: under the solver contract (the returned `f` is the NLP
    objective at the returned point) `objective_value` is the documented expression evaluated on
    the returned trajectories. -/
theorem C06_reported_objective {Env X : Type} (E n nd : Nat) (hn : 1 ≤ n) (prob : Nat → Rat)
    (J : X → Nat → Rat) (Jpath : Env → Rat) (G : Env → List Rat) (env : X → Nat → Nat → Env)
    (dae delay : X → Nat → Nat → List Rat) (hdae : ∀ x m i, (dae x m i).length = nd)
    (f : X → Rat)
    (hf : ∀ x, f x = objectiveCode ((List.range E).map prob)
      ((List.range E).map (fun m =>
        fMember (J x m) nd 1 [Jpath (env x m 0)]
          ((List.range (n - 1)).map (fun i =>
            stepColumn (dae x m i) [Jpath (env x m (i + 1))] (G (env x m (i + 1))) (delay x m i))))))
    (xstar : X) (reported : Rat) (hcontract : reported = f xstar) :
    reported = objectiveSpec E n prob (J xstar) Jpath (env xstar) := by
  rw [hcontract, hf xstar]
  exact C06_objective E n nd hn prob (J xstar) Jpath G (env xstar) (dae xstar) (delay xstar) (hdae xstar)

/-- **A transcription depends on the current data only, not on the history of earlier calls**: in
    every call of any sequence of calls on one instance, from any remembered state, the parameter
    values inlined into the path objective and path constraints are the current ones — hence any
    function `F` of them (objective, rows) is the one of the current data. -/
theorem C06_transcribe_history_free (st : TState) (calls : List (List Rat)) :
    runCalls transcribeStep st calls = calls ∧
    ∀ {β : Type} (F : List Rat → β), (runCalls transcribeStep st calls).map F = calls.map F := by
  have h : ∀ (calls : List (List Rat)) (st : TState), runCalls transcribeStep st calls = calls := by
    intro calls
    induction calls with
    | nil => intro st; rfl
    | cons cur rest ih =>
      intro st
      simp only [runCalls, transcribeStep]
      rw [ih]
  exact ⟨h calls st, fun F => by rw [h calls st]⟩

/-- refreshing the remembered values only once is not history free: the second call of
    `[1], [3/2]` would inline the first call's value -/
theorem C06_stale_inlining_witness :
    runCalls transcribeStepStale ⟨none⟩ [[1], [3/2]] = [[1], [1]] := by
  decide +kernel

/-- one call of `optimize()` refreshes both `objective_value` and `solver_output`, successful or
    not: they always belong to the same, latest solve -/
theorem C06_readback_step {X : Type} (f : X → Rat) (st : RbState X) (x : X) (success : Bool) :
    rbStep readbackModel f st x success = ⟨some (f x), some x⟩ := by
  cases success <;> rfl

/-- **The value read back belongs to the latest solve**: after any non-empty sequence of calls on
    one object, with any pattern of successful and unsuccessful solves, `solver_output` is the
    point returned by the last call and `objective_value` is the objective at that point. -/
theorem C06_readback_current {X : Type} (f : X → Rat) :
    ∀ (calls : List (X × Bool)) (st : RbState X) (last : X × Bool),
      (rbRun readbackModel f st (calls ++ [last])).output = some last.1 ∧
      (rbRun readbackModel f st (calls ++ [last])).objective = some (f last.1)
  | [], st, last => by
    simp [rbRun, C06_readback_step]
  | c :: rest, st, last => by
    simp only [List.cons_append, rbRun]
    exact C06_readback_current f rest _ last

/-- storing the objective only after a successful solve (as a table entry under a condition) does
    not have this property: after success-then-failure the objective is the first solve's -/
theorem C06_guarded_readback_witness :
    (rbRun [⟨"objective_value", "results[f]", true⟩, ⟨"solver_output", "results[x]", false⟩]
      (fun x : Rat => x * x) ⟨none, none⟩ [(2, true), (3, false)]).objective = some 4 ∧
    (rbRun [⟨"objective_value", "results[f]", true⟩, ⟨"solver_output", "results[x]", false⟩]
      (fun x : Rat => x * x) ⟨none, none⟩ [(2, true), (3, false)]).output = some 3 := by
  decide +kernel

/-! ## non-vacuity -/

-- two members, three time stamps, one DAE row per step: f = 1/2 (1 + 10+20+30) + 1/4 (2 + 1+2+3)
example : objectiveCode [1/2, 1/4]
    [fMember 1 1 1 [10] [stepColumn [0] [20] [101, 201] [], stepColumn [0] [30] [102, 202] []],
     fMember 2 1 1 [1] [stepColumn [0] [2] [3, 4] [], stepColumn [0] [3] [5, 6] []]] = 65/2 := by
  decide +kernel

-- a Timeseries upper bound on a sub-range of the horizon: +inf outside, interpolated inside
example : pathRows 1 1 2 [0, 1, 2]
    ⟨0, [10], [100, 200], [stepColumn [0] [20] [101, 201] [], stepColumn [0] [30] [102, 202] []], [],
     [⟨1, .scalar .ninf, .ts1 [0, 1] [1, 3]⟩, ⟨1, .vec [.fin (-1)], .scalar (.fin 5)⟩]⟩
    = some ⟨[100, 200, 101, 201, 102, 202],
            [.ninf, .fin (-1), .ninf, .fin (-1), .ninf, .fin (-1)],
            [.fin 1, .fin 5, .fin 3, .fin 5, .pinf, .fin 5]⟩ := by
  decide +kernel

example : (UBound.ts1 [0, 1] [1, 3]).WF := by
  show Sorted _ ∧ _
  decide

example : pointRows [⟨[7, 8], .scalar (.fin 0), .vec [.fin 1, .fin 2]⟩, ⟨[9], .vec [.fin 3], .scalar .pinf⟩]
    = some ⟨[7, 8, 9], [.fin 0, .fin 0, .fin 3], [.fin 1, .fin 2, .pinf]⟩ := by
  decide +kernel

example : pointRows [⟨[7, 8], .scalar (.fin 0), .vec [.fin 1, .fin 2, .fin 3]⟩] = none := by
  decide +kernel

end RtcVerif.C06
