import RtcVerif.Model.C07
import RtcVerif.Proofs.C07Lemmas
import RtcVerif.Proofs.C07Code
import Mathlib.Data.List.Pairwise
/-!
# C07 — ensemble members are isolated; controls are shared exactly per scenario tree

Property theorems over the models of `Model/C07.lean`: the recursive clustering of
`ControlTreeMixin` with an **arbitrary** distance table per branching level, the memoising
control-index allocator (tree, default sharing, `PlanningMixin`) and the parameter
classification / per-member data routing of `transcribe()`.  All sizes are unbounded: any
ensemble size `E`, any `k`, any number of branching times (sorted or not), any time stamps.
Helper lemmas: `Proofs/C07Lemmas.lean`.
-/
namespace RtcVerif.C07

/-! ## the scenario tree -/

/-- **The children partition the parent's member set**: every member of the parent is in exactly
    one child, the children contain nothing else, and no child lists a member twice.  Holds for
    every distance table (no symmetry, sign or metric assumption). -/
theorem tree_partition (d : Dist) (k E : Nat) (ms : List Nat) (hms : ∀ a ∈ ms, a < E) (hk : 1 ≤ k) :
    (∀ a, a ∈ ms ↔ ∃ i, i < k ∧ a ∈ ((children d k E ms)[i]?).getD []) ∧
    (∀ (i j a : Nat), a ∈ ((children d k E ms)[i]?).getD [] →
      a ∈ ((children d k E ms)[j]?).getD [] → i = j) ∧
    (∀ i : Nat, (((children d k E ms)[i]?).getD []).Nodup) := by
  refine ⟨?_, ?_, fun i => child_nodup d k E ms i⟩
  · intro a
    constructor
    · intro ha
      obtain ⟨_, _, _, hlen, hne⟩ := selectReps_spec d ms k
      have hlt := childIdx_lt d (selectReps d ms k) a (hne (List.ne_nil_of_mem ha) hk)
      refine ⟨childIdx d (selectReps d ms k) a, by omega, ?_⟩
      rw [mem_child_iff d k E ms hms]
      exact ⟨ha, by omega, rfl⟩
    · rintro ⟨i, _, hi⟩
      exact ((mem_child_iff d k E ms hms i a).1 hi).1
  · intro i j a hi hj
    have h1 := ((mem_child_iff d k E ms hms i a).1 hi).2.2
    have h2 := ((mem_child_iff d k E ms hms j a).1 hj).2.2
    omega

/-- **A node has at most `k` children**: exactly `k` child slots exist, at most `k` of them are
    non-empty, and no member is ever placed in a slot `i >= k`. -/
theorem tree_at_most_k (d : Dist) (k E : Nat) (ms : List Nat) (hms : ∀ a ∈ ms, a < E) :
    (children d k E ms).length = k ∧
    ((children d k E ms).filter (fun ch => !ch.isEmpty)).length ≤ k ∧
    (∀ i, k ≤ i → ((children d k E ms)[i]?).getD [] = []) := by
  have hlen : (children d k E ms).length = k := by simp [children]
  refine ⟨hlen, ?_, ?_⟩
  · calc ((children d k E ms).filter (fun ch => !ch.isEmpty)).length
        ≤ (children d k E ms).length := List.length_filter_le _ _
      _ = k := hlen
  · intro i hi
    apply List.eq_nil_iff_forall_not_mem.2
    intro a ha
    have := ((mem_child_iff d k E ms hms i a).1 ha).2.1
    omega

/-- the number of representatives (= non-empty children) never exceeds `k`, they are distinct
    members of the parent, and each later one has a positive distance to every earlier one -/
theorem tree_representatives (d : Dist) (ms : List Nat) (k : Nat) :
    (selectReps d ms k).length ≤ k ∧ (selectReps d ms k).Nodup ∧
    (∀ r ∈ selectReps d ms k, r ∈ ms) ∧
    (selectReps d ms k).Pairwise (fun j c => 0 < d j c) := by
  obtain ⟨h1, h2, h3, h4, _⟩ := selectReps_spec d ms k
  exact ⟨h4, h2, h1, h3⟩

/-- **Every member is in exactly one branch per depth** (this is what makes the code's scan over
    all branches in `discretize_control` find one block per depth): the branch `pathOf m L`
    contains `m`, and any branch that contains `m` is that one. -/
theorem tree_branch_unique (dist : Nat → Dist) (k E m : Nat) (hk : 1 ≤ k) (hm : m < E) (L : Nat) :
    m ∈ membersOf dist k E (pathOf dist k E m L) ∧
    ∀ p, p.length = L → m ∈ membersOf dist k E p → p = pathOf dist k E m L := by
  refine ⟨mem_pathOf dist k E m hk hm L, ?_⟩
  intro p hp hmem
  have := pathOf_unique dist k E m p hmem
  rw [hp] at this
  exact this

/-- **Zero distance is never separated** (one node): two members of a branch with distance 0
    whose rows of the distance table agree (as they do for identical forecasts) are placed in
    the same child, whatever the other distances, `k` and tie-breaking do. -/
theorem zero_distance_same_child (d : Dist) (k : Nat) (ms : List Nat) (a b : Nat)
    (hsym : ∀ x y, d x y = d y x) (hnn : ∀ x y, 0 ≤ d x y)
    (hrow : ∀ c, d a c = d b c) (hab : d a b = 0) :
    childIdx d (selectReps d ms k) a = childIdx d (selectReps d ms k) b := by
  obtain ⟨_, hnd, hsep, _, _⟩ := selectReps_spec d ms k
  generalize selectReps d ms k = reps at *
  have hba : d b a = 0 := by rw [hsym]; exact hab
  have hsymR : Std.Symm (fun j c => 0 < d j c) :=
    ⟨fun x y h => by show 0 < d y x; rw [hsym]; exact h⟩
  -- a representative other than `a` or `b` at distance 0 from one of them cannot exist before it
  have key : ∀ (x y : Nat), (∀ c, d x c = d y c) → d y x = 0 → x ∈ reps → y ∉ reps →
      childIdx d reps x = childIdx d reps y := by
    intro x y hxy hyx hx hy
    unfold childIdx
    rw [if_pos (by simpa using hx)]
    have hyc : reps.contains y = false := by simpa using hy
    rw [hyc]
    simp only [Bool.false_eq_true, if_false]
    unfold nearestRep
    obtain ⟨l1, l2, rfl⟩ := List.append_of_mem hx
    have hp := hsep
    unfold RepsSep at hp
    rw [List.pairwise_append] at hp
    have hfirst : argminFirst (fun r => d y r) (l1 ++ x :: l2) = some x := by
      apply argminFirst_eq_of_first_min
      · intro r hr
        have : 0 < d r x := hp.2.2 r hr x (List.mem_cons_self)
        show d y x < d y r
        rw [hyx, ← hxy r, hsym x r]
        exact this
      · intro r _
        show d y x ≤ d y r
        rw [hyx]
        exact hnn y r
    rw [hfirst]
  by_cases ha : a ∈ reps <;> by_cases hb : b ∈ reps
  · by_cases hab' : a = b
    · rw [hab']
    · have hs : reps.Pairwise (fun j c => 0 < d j c) := hsep
      have := List.Pairwise.forall hs ha hb hab'
      rw [hab] at this
      exact absurd this (lt_irrefl 0)
  · exact key a b hrow hba ha hb
  · exact (key b a (fun c => (hrow c).symm) hab hb ha).symm
  · unfold childIdx
    have h1 : reps.contains a = false := by simpa using ha
    have h2 : reps.contains b = false := by simpa using hb
    rw [h1, h2]
    simp only [Bool.false_eq_true, if_false]
    unfold nearestRep
    rw [argminFirst_congr (fun r => d a r) (fun r => d b r) reps (fun r _ => hrow r)]

/-- for a pseudo-metric (symmetric, non-negative, triangle inequality — what a sum of norms of
    forecast differences is) distance 0 already forces equal rows -/
theorem pseudometric_rows (d : Dist) (a b : Nat) (hsym : ∀ x y, d x y = d y x)
    (htri : ∀ x y z, d x z ≤ d x y + d y z) (hab : d a b = 0) : ∀ c, d a c = d b c := by
  intro c
  have h1 := htri a b c
  have h2 := htri b a c
  have hba : d b a = 0 := by rw [hsym]; exact hab
  rw [hab] at h1
  rw [hba] at h2
  linarith

/-- **Zero distance on the deciding segment is never separated** (tree level): two members in the
    same branch at depth `L` whose distance on the segment that decides the children of that
    branch is 0 are in the same branch at depth `L + 1`. -/
theorem zero_distance_not_separated (dist : Nat → Dist) (k E a b L : Nat)
    (hsym : ∀ x y, dist L x y = dist L y x) (hnn : ∀ x y, 0 ≤ dist L x y)
    (htri : ∀ x y z, dist L x z ≤ dist L x y + dist L y z) (hab : dist L a b = 0)
    (hsame : pathOf dist k E a L = pathOf dist k E b L) :
    pathOf dist k E a (L + 1) = pathOf dist k E b (L + 1) := by
  rw [pathOf_succ, pathOf_succ, ← hsame]
  congr 1
  exact zero_distance_same_child (dist L) k _ a b hsym hnn
    (pseudometric_rows (dist L) a b hsym htri hab) hab

/-- **The tree is a function of the current forecasts only**: in any sequence of runs on one
    object, from any dictionary left behind, the branch dictionary after each run is the one of that
    run's distance tables, `k`, ensemble size and branching times. -/
theorem C07_tree_history_free (st : List (List Nat × List Nat)) (runs : List TreeRun) :
    treeRuns treeStep st runs = runs.map (fun r => treeBranches r.dist r.k r.E r.nb) := by
  induction runs generalizing st with
  | nil => rfl
  | cons r rest ih =>
    simp only [treeRuns, List.map_cons]
    rw [ih]
    rfl

/-- filling the previous run's dictionary in place is not history free: two members that were
    separated in the first run and coincide in the second keep the first run's deeper branch
    `(1, 0) ↦ [1]` although branch `(1,)` is empty now (member 1 would get its own controls) -/
theorem C07_stale_tree_witness :
    let run1 : TreeRun := ⟨fun _ a b => if a = b then 0 else 1, 2, 2, 2⟩
    let run2 : TreeRun := ⟨fun _ _ _ => 0, 2, 2, 2⟩
    ([0, 1], [1]) ∈ treeStepInPlace (treeStep [] run1) run2 ∧
    ([0, 1], [1]) ∉ treeStep (treeStep [] run1) run2 ∧
    ([1], []) ∈ treeStep (treeStep [] run1) run2 := by
  decide +kernel

/-! ## control indices under the tree -/

/-- **Two members share a control entry at a time stamp exactly when they are in the same branch
    at that time**: `ctrlIdx m1 t = ctrlIdx m2 t ↔ branchAt m1 t = branchAt m2 t`, for every
    distance table, `k`, branching times and time stamps of the control variable. -/
theorem share_iff_same_branch (c : TreeCfg) (ts : List Rat) (count0 m1 m2 i L : Nat)
    (hm1 : m1 < c.E) (hm2 : m2 < c.E) (hi : i < ts.length)
    (hL : levelAt c.t0 c.bts ts[i] = some L) :
    treeIdx c ts count0 m1 i = treeIdx c ts count0 m2 i ↔ c.path m1 L = c.path m2 L := by
  obtain ⟨hLlt, hin, _⟩ := lastLevel_some _ _ _ hL
  obtain ⟨hinv, hpres⟩ := treeAlloc_spec c ts count0
  obtain ⟨s1, hs1⟩ := hpres m1 L hm1 hLlt
  obtain ⟨s2, hs2⟩ := hpres m2 L hm2 hLlt
  have hget : ts.getD i 0 = ts[i] := by simp [List.getD_eq_getElem?_getD, hi]
  unfold treeIdx
  rw [hget, hL]
  simp only [hs1, hs2, Option.getD_some]
  constructor
  · intro heq
    by_contra hne
    have hrank := rankIn_lt_segCount c.t0 c.bts L ts i hi hin
    have := hinv.disj _ _ s1 s2 hs1 hs2 hne
    simp only [TreeCfg.path, pathOf_length] at this
    omega
  · intro heq
    rw [heq] at hs1
    rw [hs1] at hs2
    cases hs2
    rfl

/-- **Branches only split**: if two members share a control entry at a time stamp they share it
    at every earlier time stamp of that variable (no re-merging). -/
theorem sharing_prefix_closed (c : TreeCfg) (ts : List Rat) (count0 m1 m2 i j : Nat)
    (hm1 : m1 < c.E) (hm2 : m2 < c.E) (hi : i < ts.length) (hj : j < ts.length)
    (ht0 : c.t0 ≤ ts[j]) (hji : ts[j] ≤ ts[i])
    (hshare : treeIdx c ts count0 m1 i = treeIdx c ts count0 m2 i) :
    treeIdx c ts count0 m1 j = treeIdx c ts count0 m2 j := by
  obtain ⟨L, hL⟩ := levelAt_isSome c.t0 c.bts ts[i] (le_trans ht0 hji)
  obtain ⟨L', hL'⟩ := levelAt_isSome c.t0 c.bts ts[j] ht0
  have hle : L' ≤ L := levelAt_mono c.t0 c.bts ts[i] ts[j] L L' hji hL hL'
  rw [share_iff_same_branch c ts count0 m1 m2 i L hm1 hm2 hi hL] at hshare
  rw [share_iff_same_branch c ts count0 m1 m2 j L' hm1 hm2 hj hL']
  exact pathOf_prefix c.dist c.k c.E m1 m2 L L' hle hshare

/-- **All members share every control entry before the first branching time** (more generally:
    wherever the level is 0). -/
theorem shared_before_first_branching (c : TreeCfg) (ts : List Rat) (count0 m1 m2 i : Nat)
    (hm1 : m1 < c.E) (hm2 : m2 < c.E) (hi : i < ts.length)
    (hL : levelAt c.t0 c.bts ts[i] = some 0) :
    treeIdx c ts count0 m1 i = treeIdx c ts count0 m2 i := by
  rw [share_iff_same_branch c ts count0 m1 m2 i 0 hm1 hm2 hi hL]
  rfl

/-- before the first branching time the level is 0 (branching times given in increasing order:
    only the first one matters here) -/
theorem level_zero_before_first (t0 : Rat) (bts : List Rat) (t : Rat) (ht0 : t0 ≤ t)
    (hbefore : ∀ b ∈ bts, t < b) : levelAt t0 bts t = some 0 := by
  obtain ⟨L, hL⟩ := levelAt_isSome t0 bts t ht0
  obtain ⟨hlt, hin, _⟩ := lastLevel_some _ _ _ hL
  cases L with
  | zero => exact hL
  | succ L =>
    exfalso
    have hlo := inSeg_lo t0 bts (L + 1) t hin
    simp only [segLo] at hlo
    have hLlt : L < bts.length := by omega
    rw [List.getD_eq_getElem?_getD, List.getElem?_eq_getElem hLlt] at hlo
    have := hbefore bts[L] (List.getElem_mem hLlt)
    simp only [Option.getD_some] at hlo
    linarith

/-- **The branch at time `t`**: for branching times given in non-decreasing order the depth of the
    branch that owns a control entry at time `t >= t0` is the number of branching times that
    have passed (`<= t`); the tree therefore splits exactly at the branching times. -/
theorem branch_depth_at_time (t0 : Rat) (bts : List Rat) (hs : bts.Pairwise (· ≤ ·)) (t : Rat)
    (ht : t0 ≤ t) : levelAt t0 bts t = some (bts.filter (fun b => decide (b ≤ t))).length :=
  levelAt_sorted t0 bts hs t ht

/-- **Indices stay in range, and the `int16` storage is a precondition** (finding F10): every
    entry is below the running count, so under `count <= 2^15` every stored value fits into
    `int16`; beyond that NumPy rejects the input with `OverflowError`. -/
theorem indices_in_range (c : TreeCfg) (ts : List Rat) (count0 m i L : Nat)
    (hm : m < c.E) (hi : i < ts.length) (hL : levelAt c.t0 c.bts ts[i] = some L) :
    count0 ≤ (treeAlloc c ts count0).count ∧
    treeIdx c ts count0 m i < (treeAlloc c ts count0).count ∧
    (int16Ok (treeAlloc c ts count0).count = true → treeIdx c ts count0 m i ≤ 32767) := by
  obtain ⟨hLlt, hin, _⟩ := lastLevel_some _ _ _ hL
  obtain ⟨hinv, hpres⟩ := treeAlloc_spec c ts count0
  obtain ⟨s, hs⟩ := hpres m L hm hLlt
  have hget : ts.getD i 0 = ts[i] := by simp [List.getD_eq_getElem?_getD, hi]
  have hrank := rankIn_lt_segCount c.t0 c.bts L ts i hi hin
  have hb := hinv.bound _ s hs
  simp only [TreeCfg.path, pathOf_length] at hb
  have hlt : treeIdx c ts count0 m i < (treeAlloc c ts count0).count := by
    unfold treeIdx
    rw [hget, hL]
    simp only [hs, Option.getD_some]
    omega
  refine ⟨?_, hlt, ?_⟩
  · obtain ⟨_, _, _, h4⟩ := reqAll_spec (fun p : List Nat => segCount c.t0 c.bts p.length ts)
      (treeReqs c ts) ⟨count0, []⟩ (inv_init _ count0) (treeReqs_consistent c ts)
    exact h4
  · intro h16
    simp only [int16Ok, decide_eq_true_eq] at h16
    omega

/-! ## default sharing and planning -/

/-- **Without the tree all members have identical control index lists** (one block per
    variable, allocated when member 0 is processed and returned from the cache afterwards). -/
theorem default_sharing (E n count0 m1 m2 i : Nat) :
    flatIdx .shared E n count0 m1 i = flatIdx .shared E n count0 m2 i := rfl

/-- the shared block is a block: member-independent, consecutive, below the new count -/
theorem default_block (E n count0 m i : Nat) (hE : 0 < E) (hi : i < n) :
    flatIdx .shared E n count0 m i = count0 + i ∧
    flatIdx .shared E n count0 m i < (flatAlloc .shared E n count0).count := by
  obtain ⟨hinv, hp, hex, _⟩ := reqAll_spec (fun _ : Option Nat => n) (flatReqs .shared E n)
    ⟨count0, []⟩ (inv_init _ count0) (flatReqs_consistent .shared E n)
  -- the first request allocates at `count0`, and that entry persists
  have hfirst : lookup (flatAlloc .shared E n count0).cache none = some count0 := by
    unfold flatAlloc
    obtain ⟨E', rfl⟩ : ∃ E', E = E' + 1 := ⟨E - 1, by omega⟩
    have : flatReqs .shared (E' + 1) n = (none, n) :: List.replicate E' (none, n) := by
      simp [flatReqs, List.map_const', List.replicate_succ]
    rw [this]
    simp only [reqAll]
    obtain ⟨_, q2, _, _⟩ := reqAll_spec (fun _ : Option Nat => n)
      (List.replicate E' ((none : Option Nat), n))
      (req ⟨count0, []⟩ none n).1
      ((req_spec (fun _ : Option Nat => n) ⟨count0, []⟩ (inv_init _ count0) none).1)
      (by intro r hr; rw [List.eq_of_mem_replicate hr])
    apply q2
    simp [req, lookup_nil, lookup_cons]
  have hb := hinv.bound none count0 hfirst
  unfold flatIdx
  simp only [hfirst, Option.getD_some]
  refine ⟨trivial, ?_⟩
  unfold flatAlloc at hb ⊢
  omega

/-- **Planning**: a planning variable is shared by all members (`default_sharing`), every other
    control gets a block per member, and the blocks of two different members are disjoint. -/
theorem planning (E n count0 m1 m2 i j : Nat) (hm1 : m1 < E) (hm2 : m2 < E) (hne : m1 ≠ m2)
    (hi : i < n) (hj : j < n) :
    flatIdx .perMember E n count0 m1 i ≠ flatIdx .perMember E n count0 m2 j := by
  obtain ⟨hinv, _, hex, _⟩ := reqAll_spec (fun _ : Option Nat => n) (flatReqs .perMember E n)
    ⟨count0, []⟩ (inv_init _ count0) (flatReqs_consistent .perMember E n)
  have hmem : ∀ m, m < E → ((some m : Option Nat), n) ∈ flatReqs .perMember E n := by
    intro m hm
    simp only [flatReqs, List.mem_map, List.mem_range]
    exact ⟨m, hm, by simp⟩
  obtain ⟨s1, hs1⟩ := hex _ (hmem m1 hm1)
  obtain ⟨s2, hs2⟩ := hex _ (hmem m2 hm2)
  have hd := hinv.disj (some m1) (some m2) s1 s2 hs1 hs2 (by simpa using hne)
  unfold flatIdx
  simp only
  unfold flatAlloc
  rw [hs1, hs2]
  simp only [Option.getD_some]
  omega

/-! ## isolation of the ensemble members -/

/-- the repaired classification is semantically invisible: the parameter value that member `m`'s
    rows are evaluated with is member `m`'s own, whatever the other members' values are
    (including values that coincide for some members or equal 0 or 1) -/
theorem effParam_own (P : List (List Rat)) (dyn : List Bool) (m i : Nat) (hm : m < P.length) :
    effParam isConstParam P dyn m i = (P.getD m []).getD i 0 := by
  unfold effParam
  split
  · rename_i hc
    unfold isConstParam at hc
    simp only [Bool.and_eq_true, Bool.or_eq_true, beq_iff_eq, List.all_eq_true] at hc
    cases P with
    | nil => simp at hm
    | cons r0 rest =>
      cases m with
      | zero => simp
      | succ m =>
        simp only [List.length_cons] at hm
        have hm' : m < rest.length := by omega
        rcases hc.1 with h1 | hall
        · simp only [List.length_cons] at h1
          omega
        · have := hall rest[m] (by simp [List.getElem_mem])
          have e : (r0 :: rest).getD (m + 1) [] = rest[m] := by
            simp [List.getD_eq_getElem?_getD, hm']
          simp only [List.headD_cons] at this ⊢
          rw [e, this]
  · rfl

/-- the data routed into member `m`'s segment are member `m`'s own data -/
theorem routed_own (I : Inst) (m : Nat) (md : MemberData) (h : I.members[m]? = some md) :
    routed I m = some md := by
  unfold routed
  rw [h]
  simp only
  obtain ⟨hm, hmd⟩ := List.getElem?_eq_some_iff.1 h
  have hP : I.P.getD m [] = md.params := by
    simp [Inst.P, List.getD_eq_getElem?_getD, hm, hmd]
  have hparams : (List.range md.params.length).map (effParam isConstParam I.P I.dyn m) = md.params := by
    apply List.ext_getElem
    · simp
    · intro i h1 h2
      simp only [List.getElem_map, List.getElem_range]
      rw [effParam_own I.P I.dyn m i (by simpa [Inst.P] using hm), hP]
      simp [List.getD_eq_getElem?_getD, h2]
  rw [hparams]

/-- **Non-interference**: for two instances that agree on member `m`'s own data (parameters,
    constant inputs, history, probability, bounds), member `m`'s NLP segment — rows, bounds and
    objective term, an arbitrary function `build` of the routed data and of the member's decoded
    trajectory — is the same, whatever all other members' data are (ensemble sizes may differ). -/
theorem C07_non_interference {Traj Seg : Type} (build : MemberData → Traj → Seg) (I I' : Inst)
    (m : Nat) (h : I.members[m]? = I'.members[m]?) (traj : Traj) :
    memberSegment build I m traj = memberSegment build I' m traj := by
  unfold memberSegment
  cases hm : I.members[m]? with
  | none =>
    have h' : I'.members[m]? = none := by rw [← h, hm]
    simp [routed, hm, h']
  | some md =>
    have h' : I'.members[m]? = some md := by rw [← h, hm]
    rw [routed_own I m md hm, routed_own I' m md h']

/-- the same as a function of the member's own data only -/
theorem segment_depends_on_own_data {Traj Seg : Type} (build : MemberData → Traj → Seg) (I : Inst)
    (m : Nat) (md : MemberData) (h : I.members[m]? = some md) (traj : Traj) :
    memberSegment build I m traj = some (build md traj) := by
  unfold memberSegment
  rw [routed_own I m md h]
  rfl

/-- the classification on the unchanged tree (finding F1, repaired in 1c868dc) did interfere:
    with `p = (1, 2)` member 1 was transcribed with member 0's value -/
theorem legacy_interference_witness :
    effParam isConstParamLegacy [[1], [2]] [] 1 0 = 1 ∧
    effParam isConstParam [[1], [2]] [] 1 0 = 2 ∧
    effParam isConstParamLegacy [[0], [5]] [] 1 0 = 0 := by
  decide +kernel


/-! ## the code-level definitions: distance fill and control-index allocation

`Model/C07Code.lean` mirrors the Python statements (it is what `harness/translate_c07.py`
regenerates from the source on every run, `Gen/ControlTreeAlloc.lean`); the theorems below carry the
property theorems over to those definitions.  Helper lemmas: `Proofs/C07Code.lean`. -/

/-- **Identical forecasts on the deciding window are never separated** (the distance table is the
    one the code fills: sum over the forecast variables of the norm of the difference of the two
    members' series on `[BT[L+1], BT[L+2])`): for any norm that makes the per-variable distance a
    pseudo-metric and vanishes on the zero vector, two members of one branch at depth `L` with
    equal forecast values are in one branch at depth `L + 1`. -/
theorem identical_forecasts_not_separated (fc : Forecasts) (t0 : Rat) (bts : List Rat)
    (nv k E a b L : Nat)
    (hN : PairNormOK (fun v x y => pairNorm fc t0 bts 0 (L + 1) (L + 2) v x y))
    (hz : ∀ l : List Rat, (∀ x ∈ l, x = 0) → fc.norm2 l = 0)
    (hF : ∀ v, v < nv → fc.F v a = fc.F v b)
    (hsame : pathOf (distSpec fc t0 bts nv) k E a L = pathOf (distSpec fc t0 bts nv) k E b L) :
    pathOf (distSpec fc t0 bts nv) k E a (L + 1) = pathOf (distSpec fc t0 bts nv) k E b (L + 1) := by
  obtain ⟨hsym, hnn, htri⟩ := distSpec_pseudometric fc t0 bts nv L hN
  exact zero_distance_not_separated (distSpec fc t0 bts nv) k E a b L hsym hnn htri
    (distSpec_zero_of_identical fc t0 bts nv L a b hz hF) hsame

/-- **The index arrays the code builds satisfy the sharing law**: the arrays returned by the base
    member loop around `ControlTreeMixin.discretize_control` (boolean-mask writes, block cache,
    `count = max(count, max(indices) + 1)`) agree at a time stamp for two members exactly when the
    members are in the same branch there.  `brs` is the branch dictionary in its iteration order;
    `ChainOf`: the entries containing a member are its branches in increasing depth. -/
theorem code_share_iff_same_branch (c : TreeCfg) (brs : List (List Nat × List Nat)) (ts : List Rat)
    (count0 m1 m2 i L : Nat) (hts : ts ≠ []) (ht0 : ∀ t ∈ ts, c.t0 ≤ t)
    (hch : ∀ m, m < c.E → ChainOf c brs m) (hm1 : m1 < c.E) (hm2 : m2 < c.E) (hi : i < ts.length)
    (hL : levelAt c.t0 c.bts ts[i] = some L) :
    ((ctrlLoopRef (discretizeControlRef brs c.t0 c.bts ts) stopArr (List.range c.E)
        (count0, [], [])).2.2.getD m1 []).getD i 0 =
      ((ctrlLoopRef (discretizeControlRef brs c.t0 c.bts ts) stopArr (List.range c.E)
        (count0, [], [])).2.2.getD m2 []).getD i 0 ↔ c.path m1 L = c.path m2 L := by
  obtain ⟨_, _, h⟩ := treeLoop_eq_model c brs ts count0 hts ht0 hch
  rw [h m1 i hm1 hi, h m2 i hm2 hi]
  exact share_iff_same_branch c ts count0 m1 m2 i L hm1 hm2 hi hL

/-- **The `int16` guard on the code's own count**: when the count the base loop ends with is at
    most `2^15`, every index the code stored is below that count and fits into `int16`. -/
theorem code_indices_int16 (c : TreeCfg) (brs : List (List Nat × List Nat)) (ts : List Rat)
    (count0 m i : Nat) (hts : ts ≠ []) (ht0 : ∀ t ∈ ts, c.t0 ≤ t)
    (hch : ∀ m, m < c.E → ChainOf c brs m) (hm : m < c.E) (hi : i < ts.length) :
    ((ctrlLoopRef (discretizeControlRef brs c.t0 c.bts ts) stopArr (List.range c.E)
        (count0, [], [])).2.2.getD m []).getD i 0 <
      (ctrlLoopRef (discretizeControlRef brs c.t0 c.bts ts) stopArr (List.range c.E) (count0, [], [])).1 ∧
    (int16Ok (ctrlLoopRef (discretizeControlRef brs c.t0 c.bts ts) stopArr (List.range c.E)
        (count0, [], [])).1 = true →
      ((ctrlLoopRef (discretizeControlRef brs c.t0 c.bts ts) stopArr (List.range c.E)
        (count0, [], [])).2.2.getD m []).getD i 0 ≤ 32767) := by
  obtain ⟨h1, _, h⟩ := treeLoop_eq_model c brs ts count0 hts ht0 hch
  obtain ⟨L, hL⟩ := levelAt_isSome c.t0 c.bts ts[i] (ht0 _ (List.getElem_mem hi))
  obtain ⟨_, r2, r3⟩ := indices_in_range c ts count0 m i L hm hi hL
  rw [h m i hm hi, h1]
  exact ⟨r2, r3⟩

/-- **The default member loop shares**: the base `discretize_control` with its slice cache, run
    through the base member loop, hands every member the same slice, whose entries are the
    model's shared block. -/
theorem code_default_sharing (E n count0 m1 m2 : Nat) (hE : 0 < E) (hm1 : m1 < E) (hm2 : m2 < E) :
    (ctrlLoopRef (defaultControlRef n) stopSlice (List.range E) (count0, none, [])).2.2.getD m1 (0, 0) =
      (ctrlLoopRef (defaultControlRef n) stopSlice (List.range E) (count0, none, [])).2.2.getD m2 (0, 0) ∧
    (ctrlLoopRef (defaultControlRef n) stopSlice (List.range E) (count0, none, [])).1 = count0 + n := by
  obtain ⟨h, _⟩ := defaultLoop_eq_model E n count0 hE
  rw [h]
  obtain ⟨E', rfl⟩ : ∃ E', E = E' + 1 := ⟨E - 1, by omega⟩
  refine ⟨?_, by rw [flatAlloc_shared]⟩
  simp [List.getD_eq_getElem?_getD, hm1, hm2]

/-- **The order hypothesis of the code-level theorems is satisfiable for every configuration**: the
    model's dictionary (all branches level by level) lists, among the entries that contain a member,
    exactly that member's branches in increasing depth.  (The real dictionary is filled depth-first;
    the hypothesis is decided on every real dictionary by the correspondence check.) -/
theorem tree_dictionary_chain (c : TreeCfg) (hk : 1 ≤ c.k) (m : Nat) (hm : m < c.E) :
    ChainOf c (treeBranches c.dist c.k c.E c.bts.length) m :=
  treeBranches_chain c hk m hm

/-- **Isolation through the accessors**: `state_at` memoises the symbols it builds in a cache whose
    key contains the ensemble member (with the variable, the time, `scaled`, `extrapolate`); in any
    sequence of calls on one object every call returns what is built for its own arguments —
    member `m`'s lookup of a control never returns the symbol built for another member. -/
theorem accessor_memo_transparent {V : Type} (build : SymArgs → V) (calls : List SymArgs) :
    memoRun symbolKeyRef build calls [] = calls.map build :=
  memoRun_transparent symbolKeyRef build symbolKeyRef_injective calls [] (by simp)

/-- a key that drops the member (one cached symbol per control for all members) is not transparent:
    the second member's lookup returns the first member's symbol -/
theorem accessor_shared_key_witness :
    let build : SymArgs → Nat := fun a => a.member
    let calls : List SymArgs := [⟨"u", 0, 1, false, true⟩, ⟨"u", 1, 1, false, true⟩]
    memoRun (fun a => (a.var, a.dt, a.scaled, a.extrapolate)) build calls [] = [0, 0] ∧
    memoRun symbolKeyRef build calls [] = [0, 1] := by
  decide +kernel

/-! ## non-vacuity: concrete instances meeting the hypotheses -/

/-- a 4-member example: distances on the first segment -/
def exDist : Dist := fun a b =>
  match a, b with
  | 0, 1 => 1 | 1, 0 => 1
  | 0, 2 => 5 | 2, 0 => 5
  | 0, 3 => 5 | 3, 0 => 5
  | 1, 2 => 4 | 2, 1 => 4
  | 1, 3 => 4 | 3, 1 => 4
  | _, _ => 0

example : children exDist 2 4 [0, 1, 2, 3] = [[0, 1], [2, 3]] := by decide +kernel

-- members 2 and 3 have distance 0 and equal rows: never separated, even with k = 3
example : children exDist 3 4 [0, 1, 2, 3] = [[0], [2, 3], [1]] := by decide +kernel

def exCfg : TreeCfg := ⟨fun _ => exDist, 2, 4, 0, [1, 2]⟩

-- share at t = 0 (level 0), members 0 and 2 split from t = 1 on, members 2 and 3 never
example : (List.range 4).map (fun m => (List.range 3).map (treeIdx exCfg [0, 1, 2] 0 m))
    = [[0, 1, 2], [0, 1, 3], [0, 4, 5], [0, 4, 5]] := by decide +kernel

example : levelAt exCfg.t0 exCfg.bts 1 = some 1 ∧ exCfg.path 0 1 ≠ exCfg.path 2 1 := by
  decide +kernel

example : (List.range 3).map (fun m => (List.range 2).map (flatIdx .perMember 3 2 7 m))
    = [[7, 8], [9, 10], [11, 12]] := by decide +kernel

example : routed ⟨[⟨[1, 3], [], [], 1, [], []⟩, ⟨[2, 3], [], [], 1, [], []⟩], []⟩ 1
    = some ⟨[2, 3], [], [], 1, [], []⟩ := by decide +kernel

-- the model's own dictionary satisfies the order hypothesis of the code-level theorems
example : ∀ m, m < 4 → ChainOf exCfg (treeBranches exCfg.dist exCfg.k exCfg.E exCfg.bts.length) m := by
  unfold ChainOf
  decide +kernel

-- the code-level loop on that dictionary: the arrays of `treeIdx` above, count 6
example : ctrlLoopRef (discretizeControlRef (treeBranches exCfg.dist 2 4 2) 0 [1, 2] [0, 1, 2])
    stopArr (List.range 4) (0, [], []) |>.2.2 = [[0, 1, 2], [0, 1, 3], [0, 4, 5], [0, 4, 5]] := by
  decide +kernel

example : (ctrlLoopRef (discretizeControlRef (treeBranches exCfg.dist 2 4 2) 0 [1, 2] [0, 1, 2])
    stopArr (List.range 4) (0, [], [])).1 = 6 := by decide +kernel

example : (ctrlLoopRef (defaultControlRef 3) stopSlice (List.range 3) (7, none, [])).2.2
    = [(7, 10), (7, 10), (7, 10)] := by decide +kernel

/-- a one-sample forecast per member (value = member id) with the absolute value as norm -/
def exFc : Forecasts := ⟨fun l => |l.headD 0|, fun _ _ => [0], fun _ e => [(e : Rat)]⟩

-- the norm hypothesis of `identical_forecasts_not_separated` is satisfiable with distinct members
example : PairNormOK (fun v x y => pairNorm exFc 0 [0] 0 (0 + 1) (0 + 2) v x y) := by
  have h : ∀ v x y, pairNorm exFc 0 [0] 0 (0 + 1) (0 + 2) v x y = |(x : Rat) - y| := by
    intro v x y
    simp [pairNorm, exFc, winRef, btAt, geBT, ltBT, selMask, subVec]
  refine ⟨?_, ?_, ?_⟩
  · intro v a b; rw [h]; exact abs_nonneg _
  · intro v a b; rw [h, h]; exact abs_sub_comm _ _
  · intro v a b c; simp only [h]; exact abs_sub_le _ _ _

example : distSpec exFc 0 [0] 2 0 1 3 = 4 := by
  simp [distSpec, pairNorm, exFc, winRef, btAt, geBT, ltBT, selMask, subVec, List.range_succ]
  norm_num

end RtcVerif.C07
