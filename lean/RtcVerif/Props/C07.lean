import RtcVerif.Model.C07
/-!
# C07 — ensemble members are isolated; controls are shared exactly per scenario tree
-/
namespace RtcVerif.C07

/-- a node has exactly `k` child slots (hence at most `k` non-empty children) -/
theorem children_length (d : Dist) (k E : Nat) (ms : List Nat) :
    (children d k E ms).length = k := by
  simp [children]

end RtcVerif.C07
