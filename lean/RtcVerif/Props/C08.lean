import RtcVerif.Model.C08
import RtcVerif.Props.C05
import RtcVerif.Proofs.C08Scale
import RtcVerif.Proofs.C08Lemmas
import Mathlib.Algebra.Order.Field.Basic
import Mathlib.Algebra.Order.Field.Rat
import Mathlib.Tactic.Linarith
import Mathlib.Tactic.FieldSimp
import Mathlib.Tactic.Ring
import Mathlib.Tactic.Positivity
/-!
# C08 — nominal values only rescale the numerics, never the answer

Theorems about the scaling model `RtcVerif.C08` (arbitrary row / objective functions of the
decoded trajectory) and about the C05 bound model for two instances that differ only in
nominals.  Helper lemmas: `Proofs/C08Scale.lean`.
-/
namespace RtcVerif.C08
open RtcVerif

/-! ## encode / decode -/

theorem decode_encode (ν z : Vec) (hν : ∀ k, ν k ≠ 0) : decode ν (encode ν z) = z := by
  funext k
  simp only [decode, encode]
  field_simp [hν k]

theorem encode_decode (ν x : Vec) (hν : ∀ k, ν k ≠ 0) : encode ν (decode ν x) = x := by
  funext k
  simp only [decode, encode]
  field_simp [hν k]

/-- `encode ν' ∘ decode ν` is a bijection of the scaled spaces (inverse: `encode ν ∘ decode ν'`) -/
theorem rescale_bijective (ν ν' x : Vec) (hν : ∀ k, ν k ≠ 0) (hν' : ∀ k, ν' k ≠ 0) :
    encode ν (decode ν' (encode ν' (decode ν x))) = x := by
  rw [decode_encode ν' _ hν', encode_decode ν x hν]

/-! ## rows and objective are nominal free -/

/-- **Rows are nominal free.**  For every row function and every objective of the decoded
    trajectory (model equations, path and point constraints — linear or not), and every physical
    trajectory `z`: the rows and the objective handed to the solver, evaluated at the scaled
    image of `z`, do not depend on the nominals. -/
theorem rows_nominal_free (P : Problem) (ν ν' z : Vec) (hν : ∀ k, ν k ≠ 0) (hν' : ∀ k, ν' k ≠ 0) :
    g P ν (encode ν z) = g P ν' (encode ν' z) ∧ f P ν (encode ν z) = f P ν' (encode ν' z) := by
  simp only [g, f, decode_encode ν z hν, decode_encode ν' z hν', and_self]

/-! ## bounds -/

/-- **Bounds scaling lemma**: `lb/ν ≤ x ≤ ub/ν ↔ lb ≤ ν·x ≤ ub` for a positive nominal, also
    when a bound is ∓inf -/
theorem bounds_scaling (lb ub : EVal) (ν x : Rat) (hν : 0 < ν) :
    within (lb.divPos ν) x (ub.divPos ν) = true ↔ within lb (ν * x) ub = true := by
  rw [within_iff, within_iff, EVal.divPos_le_fin_iff lb ν x hν, EVal.fin_le_divPos_iff ub ν x hν]

/-- `ν · lbx_ν = ν' · lbx_ν'` entry-wise (both are the user's bound); same for `ubx` -/
theorem bounds_nominal_free (P : Problem) (ν ν' : Vec) (k : Nat) (hν : ν k ≠ 0) (hν' : ν' k ≠ 0) :
    (lbx P ν k).mulPos (ν k) = (lbx P ν' k).mulPos (ν' k) ∧
    (ubx P ν k).mulPos (ν k) = (ubx P ν' k).mulPos (ν' k) := by
  simp only [lbx, ubx, EVal.mulPos_divPos _ _ hν, EVal.mulPos_divPos _ _ hν', and_self]

/-! ## feasible sets -/

theorem feasible_iff_phys (P : Problem) (ν x : Vec) (hν : ∀ k, 0 < ν k) :
    feasible P ν x ↔ feasiblePhys P (decode ν x) := by
  unfold feasible feasiblePhys
  constructor
  · rintro ⟨h1, h2⟩
    exact ⟨fun k hk => (bounds_scaling _ _ _ _ (hν k)).1 (h1 k hk), h2⟩
  · rintro ⟨h1, h2⟩
    exact ⟨fun k hk => (bounds_scaling _ _ _ _ (hν k)).2 (h1 k hk), h2⟩

/-- **Feasible sets correspond and the objective is preserved**: `x̃` is feasible for nominals `ν`
    iff its rescaled image is feasible for `ν'`, and both have the same objective value.  Hence
    minimisers correspond: the physical answer does not depend on the nominals. -/
theorem feasible_transfer (P : Problem) (ν ν' x : Vec) (hν : ∀ k, 0 < ν k) (hν' : ∀ k, 0 < ν' k) :
    (feasible P ν x ↔ feasible P ν' (encode ν' (decode ν x))) ∧
    f P ν x = f P ν' (encode ν' (decode ν x)) := by
  have hne' : ∀ k, ν' k ≠ 0 := fun k => ne_of_gt (hν' k)
  constructor
  · rw [feasible_iff_phys P ν x hν, feasible_iff_phys P ν' _ hν', decode_encode ν' _ hne']
  · simp only [f, decode_encode ν' _ hne']

/-- optimality transfers: a minimiser for `ν` is mapped to a minimiser for `ν'` -/
theorem optimal_transfer (P : Problem) (ν ν' x : Vec) (hν : ∀ k, 0 < ν k) (hν' : ∀ k, 0 < ν' k)
    (hfeas : feasible P ν x) (hopt : ∀ y, feasible P ν y → f P ν x ≤ f P ν y) :
    feasible P ν' (encode ν' (decode ν x)) ∧
    ∀ y', feasible P ν' y' → f P ν' (encode ν' (decode ν x)) ≤ f P ν' y' := by
  have hne : ∀ k, ν k ≠ 0 := fun k => ne_of_gt (hν k)
  obtain ⟨h1, h2⟩ := feasible_transfer P ν ν' x hν hν'
  refine ⟨h1.1 hfeas, fun y' hy' => ?_⟩
  obtain ⟨h3, h4⟩ := feasible_transfer P ν' ν y' hν' hν
  have := hopt _ (h3.1 hy')
  rw [← h2, h4]
  exact this

/-! ## rows divided by a positive constant -/

/-- **Row scaling**: a row divided by a positive constant (delay rows by their nominal, goal rows
    by `function_nominal`) has the same feasible set: `lb ≤ r/c ≤ ub ↔ c·lb ≤ r ≤ c·ub` -/
theorem row_scaling (lb ub : EVal) (r c : Rat) (hc : 0 < c) :
    scaledRowOk lb r c ub = true ↔ within (lb.mulPos c) r (ub.mulPos c) = true := by
  unfold scaledRowOk
  have hne : c ≠ 0 := ne_of_gt hc
  rw [within_iff, within_iff]
  have h1 : lb ≤ EVal.fin (r / c) ↔ lb.mulPos c ≤ EVal.fin r := by
    have := EVal.divPos_le_fin_iff (lb.mulPos c) c (r / c) hc
    rw [EVal.divPos_mulPos lb c hne, mul_div_cancel₀ r hne] at this
    exact this
  have h2 : EVal.fin (r / c) ≤ ub ↔ EVal.fin r ≤ ub.mulPos c := by
    have := EVal.fin_le_divPos_iff (ub.mulPos c) c (r / c) hc
    rw [EVal.divPos_mulPos ub c hne, mul_div_cancel₀ r hne] at this
    exact this
  rw [h1, h2]

/-- two positive row scalings accept the same values `r` -/
theorem row_scaling_free (lb ub : EVal) (r c c' : Rat) (hc : 0 < c) (hc' : 0 < c') :
    scaledRowOk (lb.divPos c) r c (ub.divPos c) = true ↔
    scaledRowOk (lb.divPos c') r c' (ub.divPos c') = true := by
  rw [row_scaling _ _ r c hc, row_scaling _ _ r c' hc',
    EVal.mulPos_divPos lb c (ne_of_gt hc), EVal.mulPos_divPos ub c (ne_of_gt hc),
    EVal.mulPos_divPos lb c' (ne_of_gt hc'), EVal.mulPos_divPos ub c' (ne_of_gt hc')]

/-! ## goal function nominal -/

/-- **Goal nominal leaves the order of a minimisation goal unchanged** (orders 1 and 2, positive
    weight and nominals): whichever of two candidate function values is better under `ν` is
    better under `ν'` -/
theorem goal_nominal_order (w ν ν' a b : Rat) (order : Nat) (ho : order = 1 ∨ order = 2)
    (hw : 0 < w) (hν : 0 < ν) (hν' : 0 < ν') :
    goalObj w ν order a ≤ goalObj w ν order b ↔ goalObj w ν' order a ≤ goalObj w ν' order b := by
  unfold goalObj
  rcases ho with rfl | rfl
  · simp only [pow_one]
    rw [mul_le_mul_iff_right₀ hw, mul_le_mul_iff_right₀ hw, div_le_div_iff_of_pos_right hν,
      div_le_div_iff_of_pos_right hν']
  · have h2 : (0 : Rat) < ν ^ 2 := by positivity
    have h2' : (0 : Rat) < ν' ^ 2 := by positivity
    rw [mul_le_mul_iff_right₀ hw, mul_le_mul_iff_right₀ hw, div_pow, div_pow, div_pow, div_pow,
      div_le_div_iff_of_pos_right h2, div_le_div_iff_of_pos_right h2']


/-- the same for every order: under any positive nominal the objective orders candidates by
    `a ^ order ≤ b ^ order` -/
theorem goal_nominal_order_any (w ν a b : Rat) (order : Nat) (hw : 0 < w) (hν : 0 < ν) :
    goalObj w ν order a ≤ goalObj w ν order b ↔ a ^ order ≤ b ^ order := by
  unfold goalObj
  have hk : (0 : Rat) < ν ^ order := by positivity
  rw [mul_le_mul_iff_right₀ hw, div_pow, div_pow, div_le_div_iff_of_pos_right hk]

/-- the ε-feasible set of a target goal does not depend on `function_nominal` -/
theorem goal_soft_rows_nominal_free (fv eps m mt M Mt ν ν' : Rat) (hν : 0 < ν) (hν' : 0 < ν') :
    (0 ≤ softMinRow fv eps m mt ν ↔ 0 ≤ softMinRow fv eps m mt ν') ∧
    (softMaxRow fv eps M Mt ν ≤ 0 ↔ softMaxRow fv eps M Mt ν' ≤ 0) := by
  unfold softMinRow softMaxRow
  constructor
  · rw [div_nonneg_iff, div_nonneg_iff]
    constructor <;> rintro (⟨h, _⟩ | ⟨_, h⟩)
    · exact Or.inl ⟨h, le_of_lt hν'⟩
    · linarith
    · exact Or.inl ⟨h, le_of_lt hν⟩
    · linarith
  · rw [div_nonpos_iff, div_nonpos_iff]
    constructor <;> rintro (⟨_, h⟩ | ⟨h, _⟩)
    · linarith
    · exact Or.inr ⟨h, le_of_lt hν'⟩
    · linarith
    · exact Or.inr ⟨h, le_of_lt hν⟩

/-- the hard constraint retained for a target goal accepts the same function values whatever the
    nominal (the constraint and its bounds are both divided by it) -/
theorem goal_hard_rows_nominal_free (fv eps mr mt Mr Mt relax ν ν' : Rat) (hν : 0 < ν) (hν' : 0 < ν') :
    (hardMin eps mr mt relax ν ≤ fv / ν ↔ hardMin eps mr mt relax ν' ≤ fv / ν') ∧
    (fv / ν ≤ hardMax eps Mr Mt relax ν ↔ fv / ν' ≤ hardMax eps Mr Mt relax ν') := by
  unfold hardMin hardMax
  rw [div_le_div_iff_of_pos_right hν, div_le_div_iff_of_pos_right hν',
    div_le_div_iff_of_pos_right hν, div_le_div_iff_of_pos_right hν']
  exact ⟨Iff.rfl, Iff.rfl⟩

/-! ## simulation get_var / set_var -/

/-- **`get_var` after `set_var` returns the physical value** for every nominal and alias sign -/
theorem sim_get_set (n : Nat) (s : Vec) (a : SimVar) (v : Rat) (hs : a.sign = 1 ∨ a.sign = -1)
    (hn : a.nominal ≠ 0) : simGet n (simSet n s a v) a = v := by
  unfold simGet simSet
  simp only [if_true]
  rcases hs with h | h <;> by_cases hi : a.index ≤ n <;> simp [h, hi] <;> field_simp

/-- reading through another alias of the same entry (same unsigned nominal) gives the signed
    physical value; entries of other variables are untouched -/
theorem sim_get_set_alias (n : Nat) (s : Vec) (a b : SimVar) (v : Rat)
    (hs : a.sign = 1 ∨ a.sign = -1) (hsb : b.sign = 1 ∨ b.sign = -1) (hn : a.nominal ≠ 0) :
    (b.index = a.index → b.nominal = a.nominal → simGet n (simSet n s a v) b = a.sign * b.sign * v) ∧
    (b.index ≠ a.index → simGet n (simSet n s a v) b = simGet n s b) := by
  constructor
  · intro hi hnom
    unfold simGet simSet
    simp only [hi, hnom, if_true]
    rcases hs with h | h <;> rcases hsb with h' | h' <;> by_cases hix : a.index ≤ n <;>
      simp [h, h', hix] <;> field_simp
  · intro hi
    unfold simGet simSet
    simp [hi]

/-! ## the bound model (C05) for two instances differing only in nominals -/

/-- **`ν · lbx_ν = ν' · lbx_ν'` entry-wise for the real bound construction** (scalar, vector,
    Timeseries bounds; any layout): two instances whose slots differ only in their nominals give
    the same physical box for every named entry -/
theorem box_nominal_free (lower : Bool) (I I' : C05.Inst) (arr arr' : List XVal)
    (hE : 0 < I.E) (hE' : 0 < I'.E)
    (h : C05.boxArr lower I = some arr) (h' : C05.boxArr lower I' = some arr')
    (m j c i : Nat) (b b' : C05.Blk) (hm : m < I.E) (hm' : m < I'.E)
    (hb : (C05.stateBlocks I)[j]? = some b) (hb' : (C05.stateBlocks I')[j]? = some b')
    (hsame : SameButNom b b') (hwf : C05.WF b) (hc : c < b.size) (hi : i < b.n)
    (hν : b.nom.at c ≠ 0) (hν' : b'.nom.at c ≠ 0) :
    (arr[C05.stateIndex I m j c i]?).map (fun x => C05.xmulPos x (b.nom.at c))
      = (arr'[C05.stateIndex I' m j c i]?).map (fun x => C05.xmulPos x (b'.nom.at c)) := by
  have hwf' : C05.WF b' := by
    intro hs
    have : b.scalarT = true := by rw [hsame.2.2.1]; exact hs
    have hn := hwf this
    simpa [C05.Blk.n, hsame.2.1] using hn
  have hc' : c < b'.size := by rw [← hsame.1]; exact hc
  have hi' : i < b'.n := by simpa [C05.Blk.n, hsame.2.1] using hi
  rw [C05.box_is_users_box lower I arr hE h m j c i b hm hb hwf hc hi,
    C05.box_is_users_box lower I' arr' hE' h' m j c i b' hm' hb' hwf' hc' hi']
  have hlo : C05.sideOf lower b = C05.sideOf lower b' := by
    cases lower <;> simp [C05.sideOf, hsame.2.2.2.1, hsame.2.2.2.2.1]
  simp only [C05.scaledBound, hlo, sideAt_sameButNom b b' hsame]
  cases C05.sideAt b' (C05.sideOf lower b') (C05.fillOf lower) c i with
  | none => rfl
  | some x => simp [xmul_xdiv x _ hν, xmul_xdiv x _ hν']

/-- history pins are the history value in physical units, whatever the nominal -/
theorem pin_nominal_free (t0 : Rat) (b b' : C05.Blk) (hh : Option C05.Hist) (hsame : SameButNom b b')
    (v v' : XVal) (hv : C05.pinValue t0 b hh = some (some v)) (hv' : C05.pinValue t0 b' hh = some (some v'))
    (hν : b.nom.at 0 ≠ 0) (hν' : b'.nom.at 0 ≠ 0) :
    C05.xmulPos v (b.nom.at 0) = C05.xmulPos v' (b'.nom.at 0) := by
  unfold C05.pinValue at hv hv'
  cases hh with
  | none => simp at hv
  | some hst =>
    simp only [← hsame.2.2.2.2.2] at hv'
    cases hx : C05.interpScalarX b.mode hst.knots .nan .nan t0 with
    | none => simp [hx] at hv
    | some x =>
      cases x with
      | nan => simp [hx] at hv
      | e w =>
        simp [hx] at hv hv'
        subst hv hv'
        rw [xmul_xdiv _ _ hν, xmul_xdiv _ _ hν']

/-- the initial-derivative nominal is the state nominal over a time step that does not depend on
    the nominal: `nominal_der / nominal` is nominal free, so the pinned initial derivative
    `pin · nominal_der` is the same physical backward difference -/
theorem init_der_nominal_free (b b' : C05.Blk) (h0 : Option C05.Hist) (hsame : SameButNom b b')
    (d d' : Rat) (hd : C05.derNominal b h0 = some d) (hd' : C05.derNominal b' h0 = some d')
    (hν : b.nom.at 0 ≠ 0) (hν' : b'.nom.at 0 ≠ 0) :
    d / b.nom.at 0 = d' / b'.nom.at 0 := by
  unfold C05.derNominal at hd hd'
  simp only [← hsame.2.1] at hd'
  simp only [Option.map_eq_some_iff] at hd hd'
  obtain ⟨dt, hdt, rfl⟩ := hd
  obtain ⟨dt', hdt', rfl⟩ := hd'
  have : dt = dt' := by
    rw [hdt] at hdt'
    simpa using hdt'
  subst this
  by_cases hpos : 0 < dt
  · simp only [hpos, if_true]
    have hne : dt ≠ 0 := ne_of_gt hpos
    field_simp
  · simp only [hpos, if_false]
    field_simp


/-! ## the seed vector -/

/-- **`x0` is the user's seed over the nominal, per named entry.**  The block written for one
    (member, variable) by `x0[inds] = seed; x0[inds] /= nominal` holds at position `c · n + i`
    (component-major) the seed of component `c` at the variable's `i`-th stamp — scalar replicated,
    a Timeseries interpolated with 0 outside (column `c` of a 2-D series) — divided by the nominal
    of component `c`. -/
theorem seed_is_users_seed (b : C05.Blk) (seed : C05.Side) (vs : List XVal) (hwf : C05.WF b)
    (h : C05.blockWrite b seed (XVal.fin 0) = some (some vs)) (c i : Nat) (hc : c < b.size) (hi : i < b.n) :
    vs[c * b.n + i]? = (C05.sideAt b seed (XVal.fin 0) c i).map fun x => C05.xdivPos x (b.nom.at c) :=
  C05.blockWrite_entry b seed (XVal.fin 0) vs hwf h c i hc hi

/-- `nominal · x0` is nominal free -/
theorem seed_nominal_free (b b' : C05.Blk) (hsame : SameButNom b b') (seed : C05.Side) (vs vs' : List XVal)
    (hwf : C05.WF b) (h : C05.blockWrite b seed (XVal.fin 0) = some (some vs))
    (h' : C05.blockWrite b' seed (XVal.fin 0) = some (some vs')) (c i : Nat) (hc : c < b.size) (hi : i < b.n)
    (hν : b.nom.at c ≠ 0) (hν' : b'.nom.at c ≠ 0) :
    (vs[c * b.n + i]?).map (fun x => C05.xmulPos x (b.nom.at c))
      = (vs'[c * b'.n + i]?).map (fun x => C05.xmulPos x (b'.nom.at c)) := by
  have hwf' : C05.WF b' := by
    intro hs
    have : b.scalarT = true := by rw [hsame.2.2.1]; exact hs
    have hn := hwf this
    simpa [C05.Blk.n, hsame.2.1] using hn
  have hc' : c < b'.size := by rw [← hsame.1]; exact hc
  have hi' : i < b'.n := by simpa [C05.Blk.n, hsame.2.1] using hi
  rw [seed_is_users_seed b seed vs hwf h c i hc hi, seed_is_users_seed b' seed vs' hwf' h' c i hc' hi',
    sideAt_sameButNom b b' hsame]
  cases C05.sideAt b' seed (XVal.fin 0) c i with
  | none => rfl
  | some x => simp [xmul_xdiv x _ hν, xmul_xdiv x _ hν']

/-! ## non-vacuity -/

/-- a small affine problem: two entries, one equality row `z0 + 2 z1 = 3`, box `[0, 10] × (-inf, 4]` -/
def exP : Problem :=
  { n := 2, rows := fun z => [z 0 + 2 * z 1], lbg := [.fin 3], ubg := [.fin 3],
    obj := fun z => z 0 * z 0 + z 1, lb := fun k => if k = 0 then .fin 0 else .ninf,
    ub := fun k => if k = 0 then .fin 10 else .fin 4 }

def exNu : Vec := fun k => if k = 0 then 10 else 1/4
def exNu' : Vec := fun k => if k = 0 then 1/1000 else 3

example : (∀ k, 0 < exNu k) ∧ (∀ k, 0 < exNu' k) := by
  constructor <;> intro k <;> simp only [exNu, exNu'] <;> split <;> norm_num

-- the physical point (1, 1) is feasible through both scalings, (1, 2) through neither
example : rowsWithin exP.lbg (g exP exNu (encode exNu (fun _ => 1))) exP.ubg = true ∧
    rowsWithin exP.lbg (g exP exNu' (encode exNu' (fun _ => 1))) exP.ubg = true ∧
    within (lbx exP exNu 0) (encode exNu (fun _ => 1) 0) (ubx exP exNu 0) = true ∧
    within (lbx exP exNu' 1) (encode exNu' (fun _ => 1) 1) (ubx exP exNu' 1) = true ∧
    rowsWithin exP.lbg (g exP exNu (encode exNu (fun k => if k = 0 then 1 else 2))) exP.ubg = false := by
  decide +kernel

example : goalObj 2 10 2 3 ≤ goalObj 2 10 2 (-4) ∧ goalObj 2 (1/100) 2 3 ≤ goalObj 2 (1/100) 2 (-4) := by
  unfold goalObj; norm_num

example : simGet 3 (simSet 3 (fun _ => 0) ⟨1, -1, 10⟩ 7) ⟨1, -1, 10⟩ = 7 := by decide +kernel

end RtcVerif.C08
