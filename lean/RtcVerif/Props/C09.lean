import RtcVerif.Model.C09Sim
import RtcVerif.Proofs.C09Lemmas
import Mathlib.Algebra.Order.Field.Rat
import Mathlib.Tactic.Linarith
import Mathlib.Tactic.Ring
import Mathlib.Tactic.FieldSimp
/-!
# C09 — simulation steps satisfy the backward-Euler model equations

All theorems are about the model `Model/C09Sim.lean`, for an ARBITRARY residual function `F`
(linear or not), arbitrary extra equations `G`, any layout sizes, any nominal table, any root
finder / NLP solver behaviour that honours its contract (hypotheses `RootSound`, `InitSound`).
-/
namespace RtcVerif.C09

/-- **Step = backward Euler, in physical units.**  If `update` returns, the new object state
    satisfies every model equation `F = 0` and every extra equation `G = 0` at the advanced time
    `t + dt`, with the inputs as they stand in the state vector when `update` runs (the IO mixin
    has put the values for `t + dt` there, see `C09_io_step`), every derivative variable equals
    the difference quotient `(x⁺ - x)/dt`, hence `F(x⁺, a⁺, (x⁺ - x)/dt, u, p, t + dt) = 0`.
    For every residual function, every nominal table (any sign or size of the nominals), every
    layout, every root finder that honours its contract. -/
theorem C09_step_backward_euler (M : Static) (F G : ResFn) (root : Root) (hroot : RootSound root)
    (hwf : NomWF M) (s s' : Sim) (dtArg : Rat) (hlen : s.sv.length = M.L.len)
    (h : update M F G root s dtArg = .returned s') :
    let dt := if dtArg > 0 then dtArg else s.dt
    (∀ v ∈ F (envOf M s'), v = 0)
    ∧ (∀ v ∈ G (envOf M s'), v = 0)
    ∧ (envOf M s').d = diffQuot M s s' dt
    ∧ (∀ v ∈ F { envOf M s' with d := diffQuot M s s' dt }, v = 0)
    ∧ (envOf M s').t = (envOf M s).t + dt
    ∧ (envOf M s').u = (envOf M s).u
    ∧ (envOf M s').p = (envOf M s).p
    ∧ s'.sv.length = M.L.len ∧ s'.dt = dt := by
  intro dt
  obtain ⟨hz, hl', hdt', ht, hd⟩ := update_returned M F G root hroot hwf s s' dtArg hlen h
  rw [stepResidual_phys M F G s s' _ hlen ht hd] at hz
  have hF : ∀ v ∈ F (envOf M s'), v = 0 := fun v hv => hz v (by simp [hv])
  have hG : ∀ v ∈ G (envOf M s'), v = 0 := fun v hv => hz v (by simp [hv])
  have hD : ∀ k, k < M.L.nS →
      (envOf M s').d.getD k 0 = ((envOf M s').x.getD k 0 - (envOf M s).x.getD k 0) / dt := by
    intro k hk
    have := hz ((envOf M s').d.getD k 0 - ((envOf M s').x.getD k 0 - (envOf M s).x.getD k 0) / dt)
      (by
        apply List.mem_append_left
        apply List.mem_append_right
        exact List.mem_map.2 ⟨k, List.mem_range.2 hk, rfl⟩)
    linarith
  have hdlen : (envOf M s').d.length = M.L.nS := by
    apply mkEnv_d_length
    rw [scaleSubst_length, List.length_take, hl']
    have := M.L.nX_lt_len
    omega
  have hdq : (envOf M s').d = diffQuot M s s' dt := by
    apply List.ext_getElem
    · simp [hdlen, diffQuot]
    · intro k h1 h2
      have hk : k < M.L.nS := by rw [hdlen] at h1; exact h1
      have := hD k hk
      rw [List.getD_eq_getElem?_getD, List.getElem?_eq_getElem h1] at this
      simp only [Option.getD_some] at this
      rw [this]
      simp [diffQuot]
  refine ⟨hF, hG, hdq, ?_, ?_, ?_, rfl, hl', hdt'⟩
  · rw [← hdq]; exact hF
  · exact ht
  · show List.take M.L.nU (List.drop (M.L.nX + 1) s'.sv) = List.take M.L.nU (List.drop (M.L.nX + 1) s.sv)
    rw [hd]

/-- **An unsolvable step raises.**  When the root finder reports failure, `update` does not
    return: an exception propagates.  The object is left with the advanced time and the old
    unknowns (nothing is half-written). -/
theorem C09_failure_raises (M : Static) (F G : ResFn) (root : Root) (hwf : NomWF M)
    (s : Sim) (dtArg : Rat) (hlen : s.sv.length = M.L.len)
    (hfail : ∀ r, root r (s.sv.take M.L.nX) = none) :
    ∃ s', update M F G root s dtArg = .raised s'
      ∧ s'.sv.take M.L.nX = s.sv.take M.L.nX
      ∧ s'.sv.drop (M.L.nX + 1) = s.sv.drop (M.L.nX + 1)
      ∧ s'.sv.getD M.L.nX 0 = s.sv.getD M.L.nX 0 + (if dtArg > 0 then dtArg else s.dt) := by
  have hu := update_unfold M F G root s dtArg hwf hlen
  simp only at hu
  rw [hu, hfail]
  have hnl := M.L.nX_lt_len
  refine ⟨_, rfl, ?_, ?_, ?_⟩
  · simp [List.take_set_of_le]
  · simp [List.drop_set_of_lt]
  · simp only
    rw [List.getD_eq_getElem?_getD, List.getElem?_set_self (by omega)]
    rfl

/-- converse reading of the two theorems above: `update` returns **iff** the root finder
    produced an answer (so with a sound root finder: only with a root) -/
theorem C09_returns_iff_root (M : Static) (F G : ResFn) (root : Root) (hwf : NomWF M)
    (s : Sim) (dtArg : Rat) (hlen : s.sv.length = M.L.len) :
    (update M F G root s dtArg).isReturned = true ↔
      ∃ x, root (fun X => stepResidual M F G X (if dtArg > 0 then dtArg else s.dt)
        ((s.sv.set M.L.nX (s.sv.getD M.L.nX 0 + (if dtArg > 0 then dtArg else s.dt))).take
          (M.L.nX + 1 + M.L.nU))) (s.sv.take M.L.nX) = some x := by
  have hu := update_unfold M F G root s dtArg hwf hlen
  simp only at hu
  rw [hu]
  split
  · rename_i hr
    constructor
    · intro h; cases h
    · rintro ⟨x, hx⟩; rw [hr] at hx; cases hx
  · rename_i x hr
    exact ⟨fun _ => ⟨x, hr⟩, fun _ => rfl⟩

end RtcVerif.C09
