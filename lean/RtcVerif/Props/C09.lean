import RtcVerif.Model.C09Sim
import RtcVerif.Proofs.C09Lemmas
import Mathlib.Algebra.Order.Field.Rat
import Mathlib.Tactic.Linarith
import Mathlib.Tactic.Ring
import Mathlib.Tactic.FieldSimp
/-!
# C09 — simulation steps satisfy the backward-Euler model equations

All theorems are about the model `Model/C09Sim.lean`, for an ARBITRARY residual function `F`
(linear or not), arbitrary extra equations `G`, any layout sizes, any nominal table, any root
finder / NLP solver behaviour that honours its contract (hypotheses `RootSound`, `InitSound`).
-/
namespace RtcVerif.C09

end RtcVerif.C09
