import RtcVerif.Model.C09Sim
import RtcVerif.Proofs.C09Lemmas
import Mathlib.Algebra.Order.Field.Rat
import Mathlib.Tactic.Linarith
import Mathlib.Tactic.Ring
import Mathlib.Tactic.FieldSimp
/-!
# C09 — simulation steps satisfy the backward-Euler model equations

All theorems are about the model `Model/C09Sim.lean`, for an ARBITRARY residual function `F`
(linear or not), arbitrary extra equations `G`, any layout sizes, any nominal table, any root
finder / NLP solver behaviour that honours its contract (hypotheses `RootSound`, `InitSound`).
-/
namespace RtcVerif.C09

/-- **Step = backward Euler, in physical units.**  If `update` returns, the new object state
    satisfies every model equation `F = 0` and every extra equation `G = 0` at the advanced time
    `t + dt`, with the inputs as they stand in the state vector when `update` runs (the IO mixin
    has put the values for `t + dt` there, see `C09_io_step`), every derivative variable equals
    the difference quotient `(x⁺ - x)/dt`, hence `F(x⁺, a⁺, (x⁺ - x)/dt, u, p, t + dt) = 0`.
    For every residual function, every nominal table (any sign or size of the nominals), every
    layout, every root finder that honours its contract. -/
theorem C09_step_backward_euler (M : Static) (F G : ResFn) (root : Root) (hroot : RootSound root)
    (hwf : NomWF M) (s s' : Sim) (dtArg : Rat) (hlen : s.sv.length = M.L.len)
    (h : update M F G root s dtArg = .returned s') :
    let dt := if dtArg > 0 then dtArg else s.dt
    (∀ v ∈ F (envOf M s'), v = 0)
    ∧ (∀ v ∈ G (envOf M s'), v = 0)
    ∧ (envOf M s').d = diffQuot M s s' dt
    ∧ (∀ v ∈ F { envOf M s' with d := diffQuot M s s' dt }, v = 0)
    ∧ (envOf M s').t = (envOf M s).t + dt
    ∧ (envOf M s').u = (envOf M s).u
    ∧ (envOf M s').p = (envOf M s).p
    ∧ s'.sv.length = M.L.len ∧ s'.dt = dt := by
  intro dt
  obtain ⟨hz, hl', hdt', ht, hd⟩ := update_returned M F G root hroot hwf s s' dtArg hlen h
  rw [stepResidual_phys M F G s s' _ hlen ht hd] at hz
  have hF : ∀ v ∈ F (envOf M s'), v = 0 := fun v hv => hz v (by simp [hv])
  have hG : ∀ v ∈ G (envOf M s'), v = 0 := fun v hv => hz v (by simp [hv])
  have hD : ∀ k, k < M.L.nS →
      (envOf M s').d.getD k 0 = ((envOf M s').x.getD k 0 - (envOf M s).x.getD k 0) / dt := by
    intro k hk
    have := hz ((envOf M s').d.getD k 0 - ((envOf M s').x.getD k 0 - (envOf M s).x.getD k 0) / dt)
      (by
        apply List.mem_append_left
        apply List.mem_append_right
        exact List.mem_map.2 ⟨k, List.mem_range.2 hk, rfl⟩)
    linarith
  have hdlen : (envOf M s').d.length = M.L.nS := by
    apply mkEnv_d_length
    rw [scaleSubst_length, List.length_take, hl']
    have := M.L.nX_lt_len
    omega
  have hdq : (envOf M s').d = diffQuot M s s' dt := by
    apply List.ext_getElem
    · simp [hdlen, diffQuot]
    · intro k h1 h2
      have hk : k < M.L.nS := by rw [hdlen] at h1; exact h1
      have := hD k hk
      rw [List.getD_eq_getElem?_getD, List.getElem?_eq_getElem h1] at this
      simp only [Option.getD_some] at this
      rw [this]
      simp [diffQuot]
  refine ⟨hF, hG, hdq, ?_, ?_, ?_, rfl, hl', hdt'⟩
  · rw [← hdq]; exact hF
  · exact ht
  · show List.take M.L.nU (List.drop (M.L.nX + 1) s'.sv) = List.take M.L.nU (List.drop (M.L.nX + 1) s.sv)
    rw [hd]

/-- **An unsolvable step raises.**  When the root finder reports failure, `update` does not
    return: an exception propagates.  The object is left with the advanced time and the old
    unknowns (nothing is half-written). -/
theorem C09_failure_raises (M : Static) (F G : ResFn) (root : Root) (hwf : NomWF M)
    (s : Sim) (dtArg : Rat) (hlen : s.sv.length = M.L.len)
    (hfail : ∀ r, root r (s.sv.take M.L.nX) = none) :
    ∃ s', update M F G root s dtArg = .raised s'
      ∧ s'.sv.take M.L.nX = s.sv.take M.L.nX
      ∧ s'.sv.drop (M.L.nX + 1) = s.sv.drop (M.L.nX + 1)
      ∧ s'.sv.getD M.L.nX 0 = s.sv.getD M.L.nX 0 + (if dtArg > 0 then dtArg else s.dt) := by
  have hu := update_unfold M F G root s dtArg hwf hlen
  simp only at hu
  rw [hu, hfail]
  have hnl := M.L.nX_lt_len
  refine ⟨_, rfl, ?_, ?_, ?_⟩
  · simp [List.take_set_of_le]
  · simp [List.drop_set_of_lt]
  · simp only
    rw [List.getD_eq_getElem?_getD, List.getElem?_set_self (by omega)]
    rfl

/-- converse reading of the two theorems above: `update` returns **iff** the root finder
    produced an answer (so with a sound root finder: only with a root) -/
theorem C09_returns_iff_root (M : Static) (F G : ResFn) (root : Root) (hwf : NomWF M)
    (s : Sim) (dtArg : Rat) (hlen : s.sv.length = M.L.len) :
    (update M F G root s dtArg).isReturned = true ↔
      ∃ x, root (fun X => stepResidual M F G X (if dtArg > 0 then dtArg else s.dt)
        ((s.sv.set M.L.nX (s.sv.getD M.L.nX 0 + (if dtArg > 0 then dtArg else s.dt))).take
          (M.L.nX + 1 + M.L.nU))) (s.sv.take M.L.nX) = some x := by
  have hu := update_unfold M F G root s dtArg hwf hlen
  simp only at hu
  rw [hu]
  split
  · rename_i hr
    constructor
    · intro h; cases h
    · rintro ⟨x, hx⟩; rw [hr] at hx; cases hx
  · rename_i x hr
    exact ⟨fun _ => ⟨x, hr⟩, fun _ => rfl⟩

/-- **The statement above is about what `get_var` returns.**  The physical environment of an
    object state is read off by `get_var`: states, algebraics, derivative variables, time and
    inputs (index + plain sign; an alias only adds the sign, see C13). -/
theorem C09_env_is_get_var (M : Static) (s : Sim) (hwf : NomWF M) (hlen : s.sv.length = M.L.len) :
    (∀ k, k < M.L.nS → (envOf M s).x.getD k 0 = getVar M s k false)
    ∧ (∀ j, j < M.L.nA → (envOf M s).a.getD j 0 = getVar M s (M.L.nS + j) false)
    ∧ (∀ k, k < M.L.nS → (envOf M s).d.getD k 0 = getVar M s (M.L.iD k) false)
    ∧ (∀ k, k < M.L.nU → (envOf M s).u.getD k 0 = getVar M s (M.L.iU k) false)
    ∧ (envOf M s).t = getTime M s :=
  ⟨fun k hk => envOf_x M s k hk hlen, fun j hj => envOf_a M s j hj hlen,
   fun k hk => envOf_d M s k hk hlen, fun k hk => envOf_u M s k hk,
   (getTime_raw M s hwf).symm⟩

/-- **The `index <= n_states` guard is benign.**  `get_var`, `set_var` and the scaling loop of
    `initialize()` test `index <= n_states` where `index < n_states` is meant; index `n_states`
    is the `time` entry.  Because nominals are only ever registered for states, algebraics and
    extra variables (`NomWF`), the looked-up nominal of `time` is 1 and both guards give the same
    functions. -/
theorem C09_index_guard_benign (M : Static) (hwf : NomWF M) (s : Sim) (i : Nat) (neg : Bool)
    (v : Rat) (X : Vec) :
    getVar M s i neg = getVarStrict M s i neg
    ∧ setVar M s i neg v = setVarStrict M s i neg v
    ∧ scaleSubst M.L M.nom X = scaleSubstStrict M.L M.nom X := by
  refine ⟨?_, ?_, ?_⟩
  · unfold getVar getVarStrict
    by_cases h : i < M.L.nX
    · simp [h, Nat.le_of_lt h]
    · by_cases h' : i ≤ M.L.nX
      · have : i = M.L.nX := by omega
        subst this
        simp [nomAt_of_wf hwf M.L.nX (le_refl _)]
      · simp [h, h']
  · unfold setVar setVarStrict
    by_cases h : i < M.L.nX
    · simp [h, Nat.le_of_lt h]
    · by_cases h' : i ≤ M.L.nX
      · have : i = M.L.nX := by omega
        subst this
        simp [nomAt_of_wf hwf M.L.nX (le_refl _)]
      · simp [h, h']
  · unfold scaleSubst scaleSubstStrict
    apply List.map_congr_left
    intro i _
    by_cases h : i < M.L.nX
    · cases List.lookup i M.nom <;> simp [h, Nat.le_of_lt h]
    · rw [lookup_none_of_wf hwf i (by omega)]

/-- without the well-formedness the two guards do differ (the hypothesis is not idle):
    a nominal registered at the `time` index rescales `get_var("time")` -/
example :
    let M : Static := { L := { nS := 1, nA := 0, nE := 0, nU := 0, nP := 0 }, nom := [(2, 10)], p := [] }
    getVar M { sv := [1, 0, 5], dt := 1 } 2 false = 50
    ∧ getVarStrict M { sv := [1, 0, 5], dt := 1 } 2 false = 5 := by decide +kernel

/-- **`get_var` after `set_var` returns the value, for every non-zero nominal** (any entry of
    the state vector, plain or negated alias). -/
theorem C09_get_set_var (M : Static) (s : Sim) (i : Nat) (neg : Bool) (v : Rat)
    (hi : i < s.sv.length) (hν : nomAt M.nom i ≠ 0) :
    getVar M (setVar M s i neg v) i neg = v := by
  unfold getVar setVar
  simp only [List.getD_eq_getElem?_getD, List.getElem?_set_self hi, Option.getD_some]
  by_cases hx : i ≤ M.L.nX <;> cases neg <;> simp [hx] <;> field_simp

/-- **Initialisation is consistent.**  If `initialize()` returns, the state satisfies the model
    equations, the initial equations and the extra equations at the start time with the inputs
    as set, and every unknown lies within its (physical) bounds for every positive nominal — in
    particular a `fixed` variable (both bounds = start value) equals its start value. -/
theorem C09_init_consistent (M : Static) (F Finit G : ResFn) (bnds : List VarBound)
    (solver : InitSolver) (hsolver : InitSound solver) (s s' : Sim)
    (hlen : s.sv.length = M.L.len)
    (h : simInitialize M F Finit G bnds solver s = .returned s') :
    (∀ v ∈ F (envOf M s'), v = 0) ∧ (∀ v ∈ Finit (envOf M s'), v = 0) ∧ (∀ v ∈ G (envOf M s'), v = 0)
    ∧ (∀ i (b : VarBound), bnds[i]? = some b → i < M.L.nX → 0 < nomAt M.nom i →
        (∀ lo, b.lo = some lo → lo ≤ getVar M s' i false)
        ∧ (∀ hi, b.hi = some hi → getVar M s' i false ≤ hi)
        ∧ (∀ start, b.lo = some start → b.hi = some start → getVar M s' i false = start))
    ∧ s'.sv.drop M.L.nX = s.sv.drop M.L.nX ∧ s'.sv.length = M.L.len := by
  have hnl := M.L.nX_lt_len
  unfold simInitialize at h
  split at h
  · cases h
  · rename_i X0 hX
    obtain ⟨hl, hz, hb⟩ := hsolver _ _ _ _ hX
    have hX0 : X0.length = M.L.nX := by rw [hl, List.length_take, hlen]; omega
    injection h with h
    subst h
    have htk : X0.take M.L.nX = X0 := List.take_of_length_le (by omega)
    simp only [htk]
    have h1 : (X0 ++ s.sv.drop M.L.nX).take M.L.nX = X0 := by rw [← hX0]; exact List.take_left
    have h2 : (X0 ++ s.sv.drop M.L.nX).drop M.L.nX = s.sv.drop M.L.nX := by
      rw [← hX0]; exact List.drop_left
    -- the environment of the constraints is the environment of the new object state
    have henv : initConstraints M F Finit G s.sv X0
        = F (envOf M { s with sv := X0 ++ s.sv.drop M.L.nX })
          ++ Finit (envOf M { s with sv := X0 ++ s.sv.drop M.L.nX })
          ++ G (envOf M { s with sv := X0 ++ s.sv.drop M.L.nX }) := by
      unfold initConstraints envOf
      simp only [h1]
      have e1 : (s.sv.drop M.L.nX).getD 0 0 = (X0 ++ s.sv.drop M.L.nX).getD M.L.iT 0 := by
        have hiT : M.L.iT = M.L.nX := rfl
        rw [hiT, List.getD_eq_getElem?_getD, List.getD_eq_getElem?_getD,
          List.getElem?_append_right (by omega), hX0, Nat.sub_self]
      have e2 : ((s.sv.drop M.L.nX).drop 1).take M.L.nU
          = ((X0 ++ s.sv.drop M.L.nX).drop (M.L.nX + 1)).take M.L.nU := by
        rw [← List.drop_drop, h2]
      rw [e1, e2]
    rw [henv] at hz
    refine ⟨fun v hv => hz v (by simp [hv]), fun v hv => hz v (by simp [hv]),
      fun v hv => hz v (by simp [hv]), ?_, h2, ?_⟩
    · intro i b hbi hi hpos
      have hget : getVar M { s with sv := X0 ++ s.sv.drop M.L.nX } i false
          = X0.getD i 0 * nomAt M.nom i := by
        unfold getVar
        simp only [if_pos (Nat.le_of_lt hi)]
        rw [List.getD_eq_getElem?_getD, List.getD_eq_getElem?_getD,
          List.getElem?_append_left (by omega)]
        simp
      have hsb : (scaledBounds M bnds)[i]?
          = some { lo := b.lo.map (· / nomAt M.nom i), hi := b.hi.map (· / nomAt M.nom i) } := by
        have hil : i < bnds.length := by
          rcases List.getElem?_eq_some_iff.1 hbi with ⟨hh, _⟩; exact hh
        unfold scaledBounds
        rw [List.getElem?_map, List.getElem?_range hil]
        simp only [Option.map_some]
        rw [List.getD_eq_getElem?_getD, hbi]
        rfl
      obtain ⟨hlo, hhi⟩ := hb i _ hsb
      have hlo' : ∀ lo, b.lo = some lo → lo ≤ getVar M { s with sv := X0 ++ s.sv.drop M.L.nX } i false := by
        intro lo hl'
        have := hlo (lo / nomAt M.nom i) (by simp [hl'])
        rw [hget]
        rwa [div_le_iff₀ hpos] at this
      have hhi' : ∀ hi', b.hi = some hi' → getVar M { s with sv := X0 ++ s.sv.drop M.L.nX } i false ≤ hi' := by
        intro hi' hh'
        have := hhi (hi' / nomAt M.nom i) (by simp [hh'])
        rw [hget]
        rwa [le_div_iff₀ hpos] at this
      exact ⟨hlo', hhi', fun st h1' h2' => le_antisymm (hhi' st h2') (hlo' st h1')⟩
    · simp [hX0, hlen]; omega

/-- **An initialisation that cannot be solved raises** and leaves the object untouched. -/
theorem C09_init_failure_raises (M : Static) (F Finit G : ResFn) (bnds : List VarBound)
    (solver : InitSolver) (s : Sim) (hfail : ∀ g bs, solver g bs (s.sv.take M.L.nX) = none) :
    simInitialize M F Finit G bnds solver s = .raised s := by
  unfold simInitialize
  rw [hfail]

/-- **Outputs are recorded at every step including t0.**  Start from the object as
    `IOMixin.initialize` leaves it (one time stamp, one record per output).  After `k` updates
    that did not raise (any `dt` arguments, negative = the import step), there is a sequence
    `tr` of `k+1` object states, consecutive ones related by one IO update (`IsTrace`), such that
    `_simulation_times` is the list of their times and every output list is the list of
    `get_var` of that output over `tr` — `k+1` entries, entry `j` the value at state `j`; the
    clock advances by the step from one state to the next.  Induction over the update sequence;
    any residual function, root finder, layout, nominals. -/
theorem C09_outputs_every_step (io : IOStatic) (F G : ResFn) (root : Root) (hroot : RootSound root)
    (dtImport : Rat) (hwf : NomWF io.M) (hs : SeriesWF io) (st st' : IOSim) (dts : List Rat)
    (hlen : st.sim.sv.length = io.M.L.len)
    (ht0 : st.times = [getTime io.M st.sim])
    (ho0 : st.out = (record io st.sim).map (fun v => [v]))
    (hpos : ∀ d ∈ dts, 0 < (if d < 0 then dtImport else d))
    (h : ioRun io F G root dtImport st dts = .returned st') :
    ∃ tr : List Sim, IsTrace io F G root dtImport st.sim dts tr
      ∧ tr.length = dts.length + 1 ∧ tr.head? = some st.sim ∧ tr.getLast? = some st'.sim
      ∧ st'.times = tr.map (getTime io.M)
      ∧ st'.out.length = io.outs.length
      ∧ (∀ o, o < io.outs.length →
          st'.out.getD o [] = tr.map (fun s =>
            getVar io.M s (io.outs.getD o (0, false)).1 (io.outs.getD o (0, false)).2))
      ∧ List.zipWith (fun (q : Sim) dtArg => getTime io.M q + (if dtArg < 0 then dtImport else dtArg))
          tr dts = tr.tail.map (getTime io.M) := by
  obtain ⟨tr, htr, hl, hlast, hout, htimes⟩ := ioRun_trace io F G root dtImport dts st st' h
  obtain ⟨hz, _, hhead⟩ := trace_times io F G root hroot dtImport hwf hs dts hpos st.sim tr hlen htr
  have hrows : ∀ r ∈ tr.tail.map (record io), r.length = io.outs.length := by
    intro r hr
    obtain ⟨q, _, rfl⟩ := List.mem_map.1 hr
    exact record_length io q
  have hout0 : st.out.length = io.outs.length := by rw [ho0]; simp [record_length]
  obtain ⟨ha, hb⟩ := appendRows_spec _ _ hrows st.out hout0
  cases tr with
  | nil => simp at hl
  | cons a b =>
    have ha' : a = st.sim := by simpa using hhead
    subst ha'
    refine ⟨_, htr, hl, rfl, hlast, ?_, ?_, ?_, hz⟩
    · rw [htimes, hz, ht0]; rfl
    · rw [hout]; exact ha
    · intro o ho
      rw [hout, hb o ho, ho0]
      simp only [List.tail_cons, List.map_cons, List.map_map]
      have e0 : (List.map (fun v => [v]) (record io st.sim)).getD o []
          = [(record io st.sim).getD o 0] := by
        have : o < (record io st.sim).length := by rw [record_length]; exact ho
        simp [List.getD_eq_getElem?_getD, List.getElem?_map, List.getElem?_eq_getElem this]
      rw [e0, record_getD io st.sim o ho]
      simp only [List.singleton_append, List.cons.injEq, true_and]
      apply List.map_congr_left
      intro q _
      exact record_getD io q o ho

/-- with a constant step (e.g. `simulate()`, which calls `update(-1)`): record `j` is the state
    at `t0 + j·dt` -/
theorem C09_record_times_equidistant (io : IOStatic) (F G : ResFn) (root : Root)
    (hroot : RootSound root) (dtImport : Rat) (hwf : NomWF io.M) (hs : SeriesWF io) (δ : Rat)
    (hδ : 0 < δ) (dts : List Rat) (hconst : ∀ d ∈ dts, (if d < 0 then dtImport else d) = δ)
    (s : Sim) (tr : List Sim) (hlen : s.sv.length = io.M.L.len)
    (h : IsTrace io F G root dtImport s dts tr) :
    tr.map (getTime io.M)
      = (List.range (dts.length + 1)).map (fun (j : Nat) => getTime io.M s + (j : Rat) * δ) :=
  trace_times_const io F G root hroot dtImport hwf hs δ hδ dts hconst s tr hlen h

/-- **Every recorded step is a backward-Euler step with the inputs fed for the new time.**
    Two consecutive states of a run: the inputs for index `bisect_left(times, t + dt)` were
    written into the state vector (unknowns and clock untouched), then the model equations were
    solved: all conclusions of `C09_step_backward_euler` hold between the two recorded states. -/
theorem C09_io_step (io : IOStatic) (F G : ResFn) (root : Root) (hroot : RootSound root)
    (dtImport : Rat) (hwf : NomWF io.M) (hs : SeriesWF io) (s s' : Sim) (dtArg : Rat)
    (hlen : s.sv.length = io.M.L.len) (hpos : 0 < (if dtArg < 0 then dtImport else dtArg))
    (h : StepRel io F G root dtImport s s' dtArg) :
    let dt := if dtArg < 0 then dtImport else dtArg
    ∃ s1, feed io (bisectLeft io.timesSec (getTime io.M s + dt)) s = some s1
      ∧ (envOf io.M s1).x = (envOf io.M s).x ∧ (envOf io.M s1).t = (envOf io.M s).t
      ∧ (∀ v ∈ F (envOf io.M s'), v = 0) ∧ (∀ v ∈ G (envOf io.M s'), v = 0)
      ∧ (envOf io.M s').d = diffQuot io.M s s' dt
      ∧ (∀ v ∈ F { envOf io.M s' with d := diffQuot io.M s s' dt }, v = 0)
      ∧ (envOf io.M s').t = (envOf io.M s).t + dt
      ∧ (envOf io.M s').u = (envOf io.M s1).u := by
  intro dt
  obtain ⟨s1, hf, hu⟩ := h
  obtain ⟨htk, hl1, _⟩ := feed_spec io hs _ s s1 hf
  have hlen1 : s1.sv.length = io.M.L.len := hl1.trans hlen
  have hnl := io.M.L.nX_lt_len
  have htake : s1.sv.take io.M.L.nX = s.sv.take io.M.L.nX := by
    have := congrArg (List.take io.M.L.nX) htk
    rwa [List.take_take, List.take_take, Nat.min_eq_left (by omega)] at this
  have ht1 : s1.sv.getD io.M.L.iT 0 = s.sv.getD io.M.L.iT 0 := by
    have hiT : io.M.L.iT = io.M.L.nX := rfl
    have e1 : s1.sv.getD io.M.L.nX 0 = (s1.sv.take (io.M.L.nX + 1)).getD io.M.L.nX 0 := by
      simp [List.getD_eq_getElem?_getD]
    have e2 : s.sv.getD io.M.L.nX 0 = (s.sv.take (io.M.L.nX + 1)).getD io.M.L.nX 0 := by
      simp [List.getD_eq_getElem?_getD]
    rw [hiT, e1, e2, htk]
  have hx : (envOf io.M s1).x = (envOf io.M s).x := by simp only [envOf, mkEnv, htake]
  have hdq : diffQuot io.M s1 s' dt = diffQuot io.M s s' dt := by simp only [diffQuot, hx]
  obtain ⟨hF, hG, hd, hFd, ht, hu', _⟩ :=
    C09_step_backward_euler io.M F G root hroot hwf s1 s' dt hlen1 hu
  have hpos' : dt > 0 := hpos
  simp only [if_pos hpos'] at hd hFd ht
  refine ⟨s1, hf, hx, ?_, hF, hG, ?_, ?_, ?_, hu'⟩
  · show s1.sv.getD io.M.L.iT 0 = s.sv.getD io.M.L.iT 0
    exact ht1
  · rw [hd, hdq]
  · rw [← hdq]; exact hFd
  · rw [ht]
    show s1.sv.getD io.M.L.iT 0 + dt = s.sv.getD io.M.L.iT 0 + dt
    rw [ht1]

/-- **Inputs are taken at t+dt**: on a strictly increasing time axis `bisect_left` of a time
    stamp of the axis is the index of that stamp, so the values fed before the step are the
    series values at the new time. -/
theorem C09_bisect_at_stamp (pre post : List Rat) (t : Rat)
    (hpre : ∀ a ∈ pre, a < t) : bisectLeft (pre ++ t :: post) t = pre.length := by
  induction pre with
  | nil => simp [bisectLeft]
  | cons a rest ih =>
    have ha : a < t := hpre a (by simp)
    simp only [List.cons_append, bisectLeft, if_pos ha, List.length_cons]
    rw [ih (fun b hb => hpre b (by simp [hb]))]

/-- **What is fed is the series value.**  With pairwise distinct targets among the constant
    inputs: after `__set_input_variables(t_idx)` `get_var` of a target returns the series value
    at `t_idx` when it is finite and the previous value when it is not (NaN gap); the unknowns
    and the clock are untouched.  (`none` = the index is past the end of a series: IndexError.) -/
theorem C09_inputs_fed (io : IOStatic) (hs : SeriesWF io)
    (hdist : io.series.Pairwise (fun a b => a.idx ≠ b.idx)) (tIdx : Nat) (s s1 : Sim)
    (hlen : ∀ ser ∈ io.series, ser.idx < s.sv.length) (h : feed io tIdx s = some s1) :
    (∀ ser ∈ io.series,
        (∀ v, ser.vals[tIdx]? = some (some v) → getVar io.M s1 ser.idx ser.neg = v)
        ∧ (ser.vals[tIdx]? = some none →
            getVar io.M s1 ser.idx ser.neg = getVar io.M s ser.idx ser.neg))
    ∧ s1.sv.take (io.M.L.nX + 1) = s.sv.take (io.M.L.nX + 1) :=
  ⟨(feed_values_aux io.M tIdx io.series hdist hs s s1 hlen h).1, (feed_spec io hs tIdx s s1 h).1⟩

/-- **Simulation step = collocation row with theta = 1 and the controls fixed.**
    `thetaRow` is the row formula of property C01,
    `(1-θ)·F(z_i, ż_i, c_i, p, t_i) + θ·F(z_{i+1}, ż_i, c_{i+1}, p, t_{i+1})`, `ż_i = Δx/Δt`.
    For a model without user extra variables/equations, any residual function `F` of fixed output
    length, any unknown vector `X` of a step from `X_prev` over `dt` with inputs `u` at the new
    time `t` (the time axis of the transcription is relative to its t0, `t1' = t`):
    `X` is a root of the simulation's step residual **iff** its derivative entries are the
    difference quotients and its states/algebraics satisfy the θ = 1 rows with constant inputs
    `c_{i+1} = u` (whatever `c_i`, `t_i` are).  The two equation sets coincide, hence so do the
    solution sets; no uniqueness assumption. -/
theorem C09_sim_equals_theta1 (M : Static) (F : ResFn) (hE : M.L.nE = 0)
    (hF : ∀ e e' : Env, (F e).length = (F e').length)
    (X Xprev : Vec) (hX : X.length = M.L.nX) (hXp : Xprev.length = M.L.nX)
    (t dt : Rat) (u c0 : Vec) (t0' : Rat) (hdt : t - t0' = dt) :
    let e1 := mkEnv M.L (scaleSubst M.L M.nom X) t u M.p
    let e0 := mkEnv M.L (scaleSubst M.L M.nom Xprev) t u M.p
    (∀ v ∈ stepResidual M F (fun _ => []) X dt (Xprev ++ t :: u), v = 0)
    ↔ ((∀ k, k < M.L.nS → e1.d.getD k 0 = (e1.x.getD k 0 - e0.x.getD k 0) / dt)
        ∧ ∀ v ∈ thetaRow F 1 e0.x e0.a e1.x e1.a [] c0 u M.p t0' t, v = 0) := by
  subst hdt
  intro e1 e0
  rw [stepResidual_consts M F _ X Xprev (t - t0') t u hXp]
  -- lengths of the slices
  have hxl1 : e1.x.length = M.L.nS := by
    apply slice_length; rw [scaleSubst_length, hX]; simp [Layout.nX]; omega
  have hxl0 : e0.x.length = M.L.nS := by
    apply slice_length; rw [scaleSubst_length, hXp]; simp [Layout.nX]; omega
  have hdl : e1.d.length = M.L.nS := by
    apply mkEnv_d_length; rw [scaleSubst_length, hX]
  have hel : e1.e = [] := by
    show slice _ _ M.L.nE = []
    rw [hE]; simp [slice]
  -- when the derivative entries are the difference quotients, the end-point environment of the
  -- collocation row is the simulation's environment
  have henv : (∀ k, k < M.L.nS → e1.d.getD k 0 = (e1.x.getD k 0 - e0.x.getD k 0) / (t - t0')) →
      thetaRow F 1 e0.x e0.a e1.x e1.a [] c0 u M.p t0' t = F e1 := by
    intro hd
    have hzd : List.zipWith (fun b a => (b - a) / (t - t0')) e1.x e0.x = e1.d := by
      apply List.ext_getElem
      · simp [hxl1, hxl0, hdl]
      · intro k h1 h2
        have hk : k < M.L.nS := by rw [hdl] at h2; exact h2
        have := hd k hk
        rw [List.getD_eq_getElem?_getD, List.getElem?_eq_getElem h2] at this
        simp only [Option.getD_some] at this
        rw [this]
        have hk1 : k < e1.x.length := by omega
        have hk0 : k < e0.x.length := by omega
        simp [List.getD_eq_getElem?_getD, List.getElem?_eq_getElem hk1, List.getElem?_eq_getElem hk0]
    unfold thetaRow
    simp only [hzd]
    rw [zipWith_theta_one _ _ (hF _ _)]
    congr 1
    show ({ x := e1.x, a := e1.a, d := e1.d, e := [], t := t, u := u, p := M.p } : Env) = e1
    rw [← hel]
    rfl
  constructor
  · intro hz
    have hd : ∀ k, k < M.L.nS → e1.d.getD k 0 = (e1.x.getD k 0 - e0.x.getD k 0) / (t - t0') := by
      intro k hk
      have := hz (e1.d.getD k 0 - (e1.x.getD k 0 - e0.x.getD k 0) / (t - t0')) (by
        apply List.mem_append_left
        apply List.mem_append_right
        exact List.mem_map.2 ⟨k, List.mem_range.2 hk, rfl⟩)
      linarith
    refine ⟨hd, ?_⟩
    rw [henv hd]
    exact fun v hv => hz v (List.mem_append_left _ (List.mem_append_left _ hv))
  · rintro ⟨hd, hrow⟩ v hv
    rw [henv hd] at hrow
    simp only [List.append_nil, List.mem_append, List.mem_map, List.mem_range] at hv
    rcases hv with hv | ⟨k, hk, rfl⟩
    · exact hrow v hv
    · rw [hd k hk]; ring

/-- **Every solution of the θ = 1 rows is a simulation root (for every non-zero nominal).**
    Together with `C09_sim_equals_theta1`: projecting a root of the step residual to its
    states/algebraics is a bijection onto the solutions of the θ = 1 collocation rows — the
    nominals only change the stored numbers, not the physical solution set. -/
theorem C09_theta1_solution_lifts (M : Static) (F : ResFn) (hE : M.L.nE = 0)
    (hF : ∀ e e' : Env, (F e).length = (F e').length)
    (hν : ∀ i, i < M.L.nX → nomAt M.nom i ≠ 0)
    (Xprev : Vec) (hXp : Xprev.length = M.L.nX) (t dt : Rat) (u c0 : Vec) (t0' : Rat)
    (hdt : t - t0' = dt) (x1 a1 : Vec) (hx1 : x1.length = M.L.nS) (ha1 : a1.length = M.L.nA)
    (hrow : ∀ v ∈ thetaRow F 1 (mkEnv M.L (scaleSubst M.L M.nom Xprev) t u M.p).x
        (mkEnv M.L (scaleSubst M.L M.nom Xprev) t u M.p).a x1 a1 [] c0 u M.p t0' t, v = 0) :
    ∃ X : Vec, X.length = M.L.nX
      ∧ (mkEnv M.L (scaleSubst M.L M.nom X) t u M.p).x = x1
      ∧ (mkEnv M.L (scaleSubst M.L M.nom X) t u M.p).a = a1
      ∧ ∀ v ∈ stepResidual M F (fun _ => []) X dt (Xprev ++ t :: u), v = 0 := by
  let e0 := mkEnv M.L (scaleSubst M.L M.nom Xprev) t u M.p
  let dq : Vec := (List.range M.L.nS).map fun k => (x1.getD k 0 - e0.x.getD k 0) / dt
  let v : Vec := x1 ++ a1 ++ dq
  have hvl : v.length = M.L.nX := by
    simp only [v, dq, List.length_append, List.length_map, List.length_range, hx1, ha1, Layout.nX, hE]
    omega
  have hsc : scaleSubst M.L M.nom (encode M.nom v) = v :=
    scaleSubst_encode M.L M.nom v (by omega) (fun i hi => hν i (by omega))
  have hx : (mkEnv M.L v t u M.p).x = x1 := by
    show slice v 0 M.L.nS = x1
    simp only [slice, v, List.drop_zero, List.append_assoc]
    rw [← hx1, List.take_left]
  have ha : (mkEnv M.L v t u M.p).a = a1 := by
    show slice v M.L.nS M.L.nA = a1
    simp only [slice, v, List.append_assoc]
    rw [← hx1, List.drop_left, ← ha1, List.take_left]
  have hd : (mkEnv M.L v t u M.p).d = dq := by
    show slice v (M.L.nS + M.L.nA) M.L.nS = dq
    simp only [slice, v]
    have : (x1 ++ a1).length = M.L.nS + M.L.nA := by simp [hx1, ha1]
    rw [← this, List.drop_left]
    apply List.take_of_length_le
    simp [dq]
  refine ⟨encode M.nom v, by simp [encode, hvl], by rw [hsc]; exact hx, by rw [hsc]; exact ha, ?_⟩
  have hX : (encode M.nom v).length = M.L.nX := by simp [encode, hvl]
  apply (C09_sim_equals_theta1 M F hE hF _ Xprev hX hXp t dt u c0 t0' hdt).2
  simp only [hsc, hx, ha, hd]
  refine ⟨?_, hrow⟩
  intro k hk
  simp [dq, List.getD_eq_getElem?_getD, List.getElem?_map, List.getElem?_range hk]
  rfl

/-- **`reset()` restores the initial state, after any history.**  Whatever sequence of
    `update` / `set_var` / `reset` calls (returning or raising) has been made since
    `initialize()`, the saved initial state vector is unchanged, so a `reset()` puts exactly the
    state vector of the end of `initialize()` back (every `get_var`, the clock included, is as
    right after `initialize()`), and a run re-started after the reset is the run a freshly
    initialised object would make: same calls, same states.  Any number of resets. -/
theorem C09_reset_restores (M : Static) (F G : ResFn) (root : Root) (o : SimObj) (ops ops' : List Op) :
    (applyOps M F G root o ops).init = o.init
    ∧ (applyOps M F G root o ops).reset.cur.sv = o.init
    ∧ (∀ i neg, getVar M (applyOps M F G root o ops).reset.cur i neg
          = getVar M { sv := o.init, dt := 0 } i neg)
    ∧ (applyOps M F G root (applyOps M F G root o ops).reset ops').cur
        = (applyOps M F G root
            { cur := { sv := o.init, dt := (applyOps M F G root o ops).cur.dt }, init := o.init } ops').cur := by
  have hinit : ∀ (ops : List Op) (o : SimObj), (applyOps M F G root o ops).init = o.init := by
    intro ops
    induction ops with
    | nil => intro o; rfl
    | cons op rest ih =>
      intro o
      show (applyOps M F G root (applyOp M F G root o op) rest).init = o.init
      rw [ih]
      cases op <;> rfl
  have h1 := hinit ops o
  refine ⟨h1, ?_, ?_, ?_⟩
  · show (applyOps M F G root o ops).init = o.init
    exact h1
  · intro i neg
    show getVar M { sv := (applyOps M F G root o ops).init, dt := _ } i neg = _
    rw [h1]
    rfl
  · have : (applyOps M F G root o ops).reset
        = { cur := { sv := o.init, dt := (applyOps M F G root o ops).cur.dt }, init := o.init } := by
      show ({ cur := { sv := (applyOps M F G root o ops).init, dt := _ },
              init := (applyOps M F G root o ops).init } : SimObj) = _
      rw [h1]
    rw [this]

/-- non-vacuity: two updates, a reset, a `set_var`, an update, a second reset on the concrete
    instance: the saved vector is intact and the state is the initial one again -/
example :
    (applyOps exM exF exG (checkedRoots exCands) { cur := exS, init := exS.sv }
        [.update 1, .update (-1), .reset, .setVar 0 false 5, .update 1, .reset]).cur.sv = exS.sv
    ∧ (applyOps exM exF exG (checkedRoots exCands) { cur := exS, init := exS.sv }
        [.update 1, .update (-1)]).cur.sv ≠ exS.sv := by
  constructor <;> decide +kernel

/-- the root finder used by the model driver in the correspondence runs (exact affine solve,
    answer re-checked) honours `RootSound`: the trajectories the driver produces are instances
    of the theorems above -/
theorem C09_driver_root_sound : RootSound soundAffineRoot := soundAffineRoot_sound

/-! ### non-vacuity: one concrete, mildly nonlinear instance satisfies all hypotheses at once

Model: one state `x` (nominal 10), one algebraic `a` (nominal 2), one input `u`, one parameter
`p = 1/2`; `der(x) + x·p - u = 0`, `a - 2x - x²/4 = 0`; outputs `x` and the negated alias `-a`;
import stamps `-1, 0, 1, 2` (t0 inside the series) with a NaN gap at the last stamp. -/

/-- hypotheses of `C09_step_backward_euler` / `C09_returns_iff_root` hold together, and the step
    is the hand-computed backward-Euler step `x: 1 → 8/3`, `a⁺ = 64/9`, `der(x) = 5/3` -/
example :
    NomWF exM ∧ RootSound (checkedRoots exCands) ∧ exS.sv.length = exM.L.len
    ∧ (update exM exF exG (checkedRoots exCands) exS 1).isReturned = true
    ∧ (update exM exF exG (checkedRoots exCands) exS 1).obj.sv = [4/15, 32/9, 5/3, 1, 3, 1/2]
    ∧ getVar exM (update exM exF exG (checkedRoots exCands) exS 1).obj 0 false = 8/3
    ∧ getVar exM (update exM exF exG (checkedRoots exCands) exS 1).obj 1 true = -64/9 :=
  ⟨by unfold NomWF; decide +kernel, checkedRoots_sound _, by decide +kernel, by decide +kernel,
   by decide +kernel, by decide +kernel, by decide +kernel⟩

/-- `C09_failure_raises`: a root finder without an answer makes `update` raise, time advanced -/
example :
    (update exM exF exG (checkedRoots [[1, 1, 1]]) exS 1).isReturned = false
    ∧ (update exM exF exG (checkedRoots [[1, 1, 1]]) exS 1).obj.sv = [1/10, 9/8, 0, 1, 3, 1/2] :=
  ⟨by decide +kernel, by decide +kernel⟩

/-- `C09_outputs_every_step`, `C09_io_step`, `C09_inputs_fed`: the hypotheses hold for a two-step
    run started from the `initialize` records; three records per output, times 0, 1, 2, the NaN
    gap keeps `u = 3` -/
example :
    SeriesWF exIO ∧ exIO.series.Pairwise (fun a b => a.idx ≠ b.idx)
    ∧ exSt.times = [getTime exIO.M exSt.sim]
    ∧ exSt.out = (record exIO exSt.sim).map (fun v => [v])
    ∧ (∀ d ∈ [(-1 : Rat), -1], 0 < (if d < 0 then (1 : Rat) else d))
    ∧ (ioRun exIO exF exG (checkedRoots exCands) 1 exSt [-1, -1]).isReturned = true
    ∧ (ioRun exIO exF exG (checkedRoots exCands) 1 exSt [-1, -1]).obj.times = [0, 1, 2]
    ∧ (ioRun exIO exF exG (checkedRoots exCands) 1 exSt [-1, -1]).obj.out
        = [[1, 8/3, 34/9], [-9/4, -64/9, -901/81]] :=
  ⟨by unfold SeriesWF; decide +kernel, by decide +kernel, by decide +kernel, by decide +kernel,
   by decide +kernel, by decide +kernel, by decide +kernel, by decide +kernel⟩

/-- `C09_init_consistent`: a feasible answer of the NLP solver (fixed start `x = 1`) is accepted,
    the t0 record is taken from it; an infeasible proposal makes `initialize` raise -/
example :
    InitSound (checkedInit [1/10, 9/8, 5/2])
    ∧ (ioInitialize exIO exF (fun _ => []) exG [⟨some 1, some 1⟩] (checkedInit [1/10, 9/8, 5/2])
        [0, 0, 0, 5, 9, 1/2]).isReturned = true
    ∧ (ioInitialize exIO exF (fun _ => []) exG [⟨some 1, some 1⟩] (checkedInit [1/10, 9/8, 5/2])
        [0, 0, 0, 5, 9, 1/2]).obj.out = [[1], [-9/4]]
    ∧ (ioInitialize exIO exF (fun _ => []) exG [⟨some 1, some 1⟩] (checkedInit [2/10, 9/8, 5/2])
        [0, 0, 0, 5, 9, 1/2]).isReturned = false :=
  ⟨checkedInit_sound _, by decide +kernel, by decide +kernel, by decide +kernel⟩

/-- `C09_sim_equals_theta1` / `C09_theta1_solution_lifts`: the fixed-length hypothesis holds for
    every polynomial residual, the nominals of the instance are non-zero, and the hand-computed
    step satisfies the θ = 1 row -/
example :
    (∀ e e' : Env, (exF e).length = (exF e').length)
    ∧ (∀ i, i < exM.L.nX → nomAt exM.nom i ≠ 0)
    ∧ thetaRow exF 1 [1] [9/4] [8/3] [64/9] [] [7] [3] [1/2] 0 1 = [0, 0] :=
  ⟨fun e e' => by simp [exF, polyRes_length], by decide +kernel, by decide +kernel⟩

/-- **Every returned step of every history, failed steps included.**  Whatever sequence of `update` /
    `set_var` / `reset` calls is made after `initialize()`, and whichever of the `update` calls fail
    (the root finder — nlpsol, newton, fast_newton, ... — is an arbitrary oracle that may refuse any
    step): every `update` that RETURNS leaves a state satisfying the model equations, the extra
    equations and the difference quotients relative to the object state right before that call — also
    when that state is what a failed `update` left behind; every `update` that RAISES leaves the
    unknowns and inputs untouched, and the object keeps its shape, so the run can go on. -/
theorem C09_history_returned_steps (M : Static) (F G : ResFn) (root : Root) (hroot : RootSound root)
    (hwf : NomWF M) (ops : List Op) (o : SimObj)
    (hcur : o.cur.sv.length = M.L.len) (hinit : o.init.length = M.L.len) :
    ∀ e ∈ updateLog M F G root o ops,
      e.1.sv.length = M.L.len
      ∧ (∀ s', e.2.2 = .returned s' →
          let dt := if e.2.1 > 0 then e.2.1 else e.1.dt
          (∀ v ∈ F (envOf M s'), v = 0) ∧ (∀ v ∈ G (envOf M s'), v = 0)
          ∧ (envOf M s').d = diffQuot M e.1 s' dt
          ∧ (∀ v ∈ F { envOf M s' with d := diffQuot M e.1 s' dt }, v = 0)
          ∧ (envOf M s').t = (envOf M e.1).t + dt
          ∧ (envOf M s').u = (envOf M e.1).u)
      ∧ (∀ s', e.2.2 = .raised s' →
          s'.sv.take M.L.nX = e.1.sv.take M.L.nX ∧ s'.sv.drop (M.L.nX + 1) = e.1.sv.drop (M.L.nX + 1)
          ∧ s'.sv.length = M.L.len) := by
  induction ops generalizing o with
  | nil => intro e he; cases he
  | cons op rest ih =>
    intro e he
    have hl := applyOp_lengths M F G root hroot hwf o hcur hinit op
    cases op with
    | update dtArg =>
      simp only [updateLog, List.singleton_append, List.mem_cons] at he
      rcases he with he | he
      · subst he
        refine ⟨hcur, ?_, ?_⟩
        · intro s' hs'
          have := C09_step_backward_euler M F G root hroot hwf o.cur s' dtArg hcur hs'
          simp only at this
          exact ⟨this.1, this.2.1, this.2.2.1, this.2.2.2.1, this.2.2.2.2.1, this.2.2.2.2.2.1⟩
        · intro s' hs'
          have hol := update_obj_length M F G root hroot hwf o.cur dtArg hcur
          have hu := update_unfold M F G root o.cur dtArg hwf hcur
          simp only at hu hs'
          rw [hs'] at hol
          rw [hu] at hs'
          split at hs'
          · cases hs'
            refine ⟨by simp [List.take_set_of_le], by simp [List.drop_set_of_lt], hol⟩
          · cases hs'
      · exact ih _ hl.1 hl.2 e he
    | setVar i neg v =>
      simp only [updateLog, List.nil_append] at he
      exact ih _ hl.1 hl.2 e he
    | reset =>
      simp only [updateLog, List.nil_append] at he
      exact ih _ hl.1 hl.2 e he

/-- non-vacuity: a history with a failed step in the middle -/
example :
    (updateLog exM exF exG (checkedRoots [[4/15, 32/9, 5/3]]) { cur := exS, init := exS.sv }
        [.update 1, .update (-1), .reset, .update 1]).map (fun e => e.2.2.isReturned) = [true, false, true] := by
  decide +kernel

end RtcVerif.C09
