import RtcVerif.Model.C10Priority
import RtcVerif.Proofs.C10Priority
import RtcVerif.Model.C10Loop
import RtcVerif.Proofs.C10Loop
import Mathlib.Tactic.Linarith
/-!
# C10 — a failed priority stops the run and leaves the last good results

All theorems are about `optimize v gs skip oracle` (model of `GoalProgrammingMixin.optimize`,
`v = multiPass`, and `SinglePassGoalProgrammingMixin.optimize`, `v = singlePass`) for EVERY goal
list `gs` (any priorities: negative, gaps, duplicates, non-integral; any targets), EVERY solver
outcome oracle `oracle : Nat → Bool` (outcome of the k-th solver call) and EVERY hook behaviour
`skip : Int → Bool`.  Helper lemmas: `Proofs/C10Priority.lean`.
-/
namespace RtcVerif.C10

/-- **Empty goals**: `Goal.is_empty` holds exactly when at least one target is a `Timeseries`
    and no target holds any finite value; a minimisation goal (no target at all) is never empty. -/
theorem C10_isEmpty_iff (g : Goal) :
    isEmpty g = true ↔
      (g.targetMin.isSeries = true ∨ g.targetMax.isSeries = true) ∧
        anyFinite g.targetMin = false ∧ anyFinite g.targetMax = false := by
  unfold isEmpty
  cases g.targetMin.isSeries <;> cases g.targetMax.isSeries <;>
    cases anyFinite g.targetMin <;> cases anyFinite g.targetMax <;> simp

/-- **Empty goals, entry by entry** (the statement the harness oracle re-states on the goal's data): a goal
    is empty iff it has a target side (a `Timeseries`, or some finite number) and EVERY entry of BOTH
    sides is non-finite (NaN / ±inf).  One finite entry anywhere — min or max side, `Timeseries`,
    vector or scalar — makes the goal non-empty. -/
theorem C10_isEmpty_iff_entries (g : Goal) :
    isEmpty g = true ↔
      (hasSide g.targetMin = true ∨ hasSide g.targetMax = true) ∧
        ∀ x ∈ g.targetMin.vals ++ g.targetMax.vals, x.isFinite = false := by
  have hany : ∀ t : Target, anyFinite t = false ↔ ∀ x ∈ t.vals, x.isFinite = false := by
    intro t
    unfold anyFinite
    constructor
    · intro h x hx
      cases hf : x.isFinite with
      | false => rfl
      | true => exact absurd (List.any_eq_true.2 ⟨x, hx, hf⟩) (by simp [h])
    · intro h
      cases ha : t.vals.any XVal.isFinite with
      | false => rfl
      | true =>
        obtain ⟨x, hx, hf⟩ := List.any_eq_true.1 ha
        rw [h x hx] at hf
        cases hf
  rw [C10_isEmpty_iff]
  simp only [List.mem_append, hasSide]
  constructor
  · rintro ⟨hs, h1, h2⟩
    refine ⟨?_, ?_⟩
    · rcases hs with hs | hs
      · left; simp [hs]
      · right; simp [hs]
    · intro x hx
      rcases hx with hx | hx
      · exact (hany _).1 h1 x hx
      · exact (hany _).1 h2 x hx
  · rintro ⟨hs, hall⟩
    have h1 : anyFinite g.targetMin = false := (hany _).2 (fun x hx => hall x (Or.inl hx))
    have h2 : anyFinite g.targetMax = false := (hany _).2 (fun x hx => hall x (Or.inr hx))
    refine ⟨?_, h1, h2⟩
    rw [h1, h2] at hs
    simpa using hs

/-- **Which priorities exist**: the priority list is strictly increasing (so: ascending numeric
    order, each value once, duplicates merged), and `p` is in it iff some non-empty goal has
    `int(priority) = p` — an empty goal creates no priority, and the subproblem of every listed
    priority has at least one goal. -/
theorem C10_priorities (gs : List Goal) :
    (priorities gs).Pairwise (· < ·) ∧
    (∀ p, p ∈ priorities gs ↔ ∃ g ∈ gs, isEmpty g = false ∧ pyInt g.priority = p) ∧
    (∀ p ∈ priorities gs, goalsAt gs p ≠ []) := by
  have hmem : ∀ p, p ∈ priorities gs ↔ ∃ g ∈ gs, isEmpty g = false ∧ pyInt g.priority = p := by
    intro p
    unfold priorities
    rw [mem_sortU]
    simp only [List.mem_map, List.mem_filter, Bool.not_eq_eq_eq_not, Bool.not_true]
    constructor
    · rintro ⟨g, ⟨hg, he⟩, hp⟩; exact ⟨g, hg, he, hp⟩
    · rintro ⟨g, hg, he, hp⟩; exact ⟨g, ⟨hg, he⟩, hp⟩
  refine ⟨sortU_sorted _, hmem, ?_⟩
  intro p hp
  obtain ⟨g, hg, he, hpp⟩ := (hmem p).1 hp
  intro hnil
  have : g ∈ goalsAt gs p := by
    unfold goalsAt
    simp only [List.mem_filter, Bool.and_eq_true, beq_iff_eq, Bool.not_eq_eq_eq_not, Bool.not_true]
    exact ⟨hg, hpp, he⟩
  rw [hnil] at this
  cases this

/-- **A finite entry creates the priority**: a goal holding a finite number in ANY entry of EITHER target
    side (however many other entries are NaN / inf), and every goal without target sides (minimisation
    goal), has its `int(priority)` in the priority list — so by `C10_order` / `C10_success` it is
    attempted unless an earlier priority failed. -/
theorem C10_finite_entry_creates_priority (gs : List Goal) (g : Goal) (hg : g ∈ gs)
    (h : (∃ x ∈ g.targetMin.vals ++ g.targetMax.vals, x.isFinite = true) ∨
         (hasSide g.targetMin = false ∧ hasSide g.targetMax = false)) :
    pyInt g.priority ∈ priorities gs := by
  refine ((C10_priorities gs).2.1 _).2 ⟨g, hg, ?_, rfl⟩
  cases he : isEmpty g with
  | false => rfl
  | true =>
    obtain ⟨hs, hall⟩ := (C10_isEmpty_iff_entries g).1 he
    rcases h with ⟨x, hx, hf⟩ | ⟨h1, h2⟩
    · rw [hall x hx] at hf; cases hf
    · rw [h1, h2] at hs; simp at hs

/-- **Order**: the priorities attempted (hook `priority_started`), in the order of attempt, are
    a prefix of the strictly increasing priority list — ascending, each at most once. -/
theorem C10_order (v : Variant) (gs : List Goal) (skip : Int → Bool) (oracle : Nat → Bool) :
    startedOf (optimize v gs skip oracle).events <+: priorities gs ∧
    (startedOf (optimize v gs skip oracle).events).Pairwise (· < ·) := by
  have h : startedOf (optimize v gs skip oracle).events = startedOf (core v gs skip oracle).events := by
    rw [optimize_events, startedOf_append]; simp [startedOf]
  rw [h]
  have hp := loop_started_prefix (effSkip v skip) oracle (priorities gs) 0 false none none
  refine ⟨hp, ?_⟩
  exact List.Pairwise.sublist hp.sublist (sortU_sorted _)

/-- **Bracketing**: the log is `(started p · solve p ok · completed p)* · (started q · solve q
    failed)? · post`, where a `started p` stands alone exactly when the hook removed `p`
    (`skip_priority`, multi-pass only); `completed` fires iff the solve succeeded. -/
theorem C10_bracketing (v : Variant) (gs : List Goal) (skip : Int → Bool) (oracle : Nat → Bool) :
    ∃ es, (optimize v gs skip oracle).events = es ++ [.post] ∧ Bracketed (effSkip v skip) es :=
  ⟨_, optimize_events v gs skip oracle, loop_bracketed _ _ _ _ _ _ _⟩

/-- **Completed iff success**: `priority_completed` fires for exactly the priorities whose solve
    succeeded, in the same order. -/
theorem C10_completed_iff_success (v : Variant) (gs : List Goal) (skip : Int → Bool)
    (oracle : Nat → Bool) :
    completedOf (optimize v gs skip oracle).events
      = ((solvesOf (optimize v gs skip oracle).events).filter (·.2)).map (·.1) := by
  rw [optimize_events, completedOf_append, solvesOf_append]
  simp only [completedOf, solvesOf, List.append_nil]
  exact (loop_solves (effSkip v skip) oracle (priorities gs) 0 false none none).2.2.2.2.2.1

/-- **Each priority is solved at most once**: the priorities at which the solver is called are
    pairwise distinct (a sublist of the strictly increasing priority list). -/
theorem C10_solved_at_most_once (v : Variant) (gs : List Goal) (skip : Int → Bool)
    (oracle : Nat → Bool) :
    ((solvesOf (optimize v gs skip oracle).events).map (·.1)).Pairwise (· < ·) := by
  rw [optimize_events, solvesOf_append]
  simp only [solvesOf, List.append_nil]
  exact List.Pairwise.sublist
    (loop_solves_sublist (effSkip v skip) oracle (priorities gs) 0 false none none) (sortU_sorted _)

/-- **Stop on the first failure**: if the solver fails at priority `q`, `optimize` returns
    `False`, the log ends `… started q · solve q failed · post` (no lower priority is attempted,
    no `completed q`), and every solve before it succeeded. -/
theorem C10_stop_on_failure (v : Variant) (gs : List Goal) (skip : Int → Bool) (oracle : Nat → Bool)
    (q : Int) (hq : (q, false) ∈ solvesOf (optimize v gs skip oracle).events) :
    (optimize v gs skip oracle).success = false ∧
    ∃ es, (optimize v gs skip oracle).events = es ++ [.started q, .solve q false, .post] ∧
      (∀ x ∈ solvesOf es, x.2 = true) ∧ q ∉ completedOf (optimize v gs skip oracle).events := by
  have hq' : (q, false) ∈ solvesOf (core v gs skip oracle).events := by
    rw [optimize_events, solvesOf_append] at hq; simpa [solvesOf] using hq
  obtain ⟨es, hes, hall⟩ := loop_failure_last (effSkip v skip) oracle (priorities gs) 0 false none none q hq'
  have hs := loop_solves (effSkip v skip) oracle (priorities gs) 0 false none none
  simp only at hs
  obtain ⟨_, _, hsucc, _, _, hcomp, _⟩ := hs
  have hsv : solvesOf (core v gs skip oracle).events = solvesOf es ++ [(q, false)] := by
    unfold core; rw [hes, solvesOf_append]; simp [solvesOf]
  refine ⟨?_, es, ?_, hall, ?_⟩
  · show (core v gs skip oracle).success = false
    unfold core at hsv ⊢
    rw [hsucc, hsv]; simp
  · rw [optimize_events]; unfold core; rw [hes]; simp
  · rw [C10_completed_iff_success]
    intro hmem
    simp only [List.mem_map, List.mem_filter] at hmem
    obtain ⟨x, ⟨hx, hx2⟩, hxq⟩ := hmem
    have := eq_of_same_priority (C10_solved_at_most_once v gs skip oracle) x hx (q, false) hq hxq
    rw [this] at hx2
    simp at hx2

/-- **Return value**: `optimize` returns `True` iff the solver was called at least once and
    every call succeeded (with no goals, or all priorities removed by the hook, it returns the
    initial `False`). -/
theorem C10_return_value (v : Variant) (gs : List Goal) (skip : Int → Bool) (oracle : Nat → Bool) :
    (optimize v gs skip oracle).success = true ↔
      solvesOf (optimize v gs skip oracle).events ≠ [] ∧
        ∀ x ∈ solvesOf (optimize v gs skip oracle).events, x.2 = true := by
  have hsv : solvesOf (optimize v gs skip oracle).events = solvesOf (core v gs skip oracle).events := by
    rw [optimize_events, solvesOf_append]; simp [solvesOf]
  rw [hsv]
  have hs := loop_solves (effSkip v skip) oracle (priorities gs) 0 false none none
  simp only at hs
  obtain ⟨_, _, hsucc, _⟩ := hs
  show (core v gs skip oracle).success = true ↔ _
  unfold core
  rw [hsucc]
  constructor
  · intro h
    cases hl : (solvesOf (loop (effSkip v skip) oracle (priorities gs) 0 false none none).events).getLast? with
    | none => rw [hl] at h; simp at h
    | some x =>
      rw [hl] at h
      simp only at h
      refine ⟨fun hn => by rw [hn] at hl; simp at hl, ?_⟩
      intro y hy
      by_contra hne
      have hf : y = (y.1, false) := by
        obtain ⟨a, b⟩ := y; simp at hne; simp [hne]
      rw [hf] at hy
      obtain ⟨es, hes, _⟩ := loop_failure_last (effSkip v skip) oracle (priorities gs) 0 false none none y.1 hy
      rw [hes, solvesOf_append] at hl
      simp [solvesOf] at hl
      rw [← hl] at h
      simp at h
  · rintro ⟨hne, hall⟩
    cases hl : (solvesOf (loop (effSkip v skip) oracle (priorities gs) 0 false none none).events).getLast? with
    | none => exact absurd (List.getLast?_eq_none_iff.1 hl) hne
    | some x => exact hall x (List.mem_of_getLast? hl)

/-- **No failure, no early stop**: if every solver call succeeds, every priority is attempted. -/
theorem C10_all_attempted_without_failure (v : Variant) (gs : List Goal) (skip : Int → Bool)
    (oracle : Nat → Bool) (h : ∀ x ∈ solvesOf (optimize v gs skip oracle).events, x.2 = true) :
    startedOf (optimize v gs skip oracle).events = priorities gs := by
  rw [optimize_events, startedOf_append]
  simp only [startedOf, List.append_nil]
  apply loop_all_started
  intro x hx
  apply h
  rw [optimize_events, solvesOf_append]
  exact List.mem_append_left _ hx

/-- **Results cache**: after the run (and during `post`) `extract_results()` returns the results
    captured right after the LAST SUCCESSFUL solve, if there is one; only when no solve succeeded
    does the base class show through (the output of the failed first solve, or nothing when the
    solver was never called). -/
theorem C10_results_cache (v : Variant) (gs : List Goal) (skip : Int → Bool) (oracle : Nat → Bool) :
    exposed (optimize v gs skip oracle) =
      match lastOk (solvesOf (optimize v gs skip oracle).events) with
      | some p => .cached p
      | none =>
        match (solvesOf (optimize v gs skip oracle).events).getLast? with
        | some (p, ok) => .raw p ok
        | none => .nothing := by
  have hsv : solvesOf (optimize v gs skip oracle).events = solvesOf (core v gs skip oracle).events := by
    rw [optimize_events, solvesOf_append]; simp [solvesOf]
  rw [hsv]
  have hs := loop_solves (effSkip v skip) oracle (priorities gs) 0 false none none
  simp only at hs
  obtain ⟨_, _, _, hcache, hraw, _⟩ := hs
  unfold exposed
  show (match (core v gs skip oracle).cache with
    | some p => Exposed.cached p
    | none => match (core v gs skip oracle).lastRaw with
      | some (p, ok) => Exposed.raw p ok
      | none => Exposed.nothing) = _
  unfold core
  rw [hcache, hraw]
  cases lastOk (solvesOf (loop (effSkip v skip) oracle (priorities gs) 0 false none none).events) with
  | some q => rfl
  | none =>
    cases (solvesOf (loop (effSkip v skip) oracle (priorities gs) 0 false none none).events).getLast? with
    | some x => rfl
    | none => rfl

/-- **Never a mixture with the failed attempt**: when the solver fails at `q` after at least one
    success, the results exposed afterwards are the cached results of the last successfully
    completed priority `p` (the last solve before the failure) — not the output of the failed solve. -/
theorem C10_failure_leaves_last_good_results (v : Variant) (gs : List Goal) (skip : Int → Bool)
    (oracle : Nat → Bool) (q : Int) (hq : (q, false) ∈ solvesOf (optimize v gs skip oracle).events) :
    ∃ es, (optimize v gs skip oracle).events = es ++ [.started q, .solve q false, .post] ∧
      exposed (optimize v gs skip oracle) =
        match (solvesOf es).getLast? with
        | some (p, _) => .cached p
        | none => .raw q false := by
  obtain ⟨_, es, hes, hall, _⟩ := C10_stop_on_failure v gs skip oracle q hq
  refine ⟨es, hes, ?_⟩
  rw [C10_results_cache, hes, solvesOf_append]
  simp only [solvesOf]
  rw [lastOk_append_fail, lastOk_all_ok _ hall]
  cases hl : (solvesOf es).getLast? with
  | some x => obtain ⟨p, ok⟩ := x; simp
  | none => simp

/-- **Post-processing runs exactly once**, after everything else, whatever happened before. -/
theorem C10_post_runs_once (v : Variant) (gs : List Goal) (skip : Int → Bool) (oracle : Nat → Bool) :
    (optimize v gs skip oracle).events.count .post = 1 ∧
    (optimize v gs skip oracle).events.getLast? = some .post := by
  rw [optimize_events]
  refine ⟨?_, by simp⟩
  have h0 : (core v gs skip oracle).events.count .post = 0 :=
    List.count_eq_zero_of_not_mem (loop_no_post _ _ _ _ _ _ _)
  rw [List.count_append, h0]
  simp

/-- **A priority removed in `priority_started` is not solved** (and does not complete); the
    single-pass variant has no such mechanism. -/
theorem C10_skip_priority (v : Variant) (gs : List Goal) (skip : Int → Bool) (oracle : Nat → Bool)
    (p : Int) (hp : effSkip v skip p = true) :
    (∀ ok, (p, ok) ∉ solvesOf (optimize v gs skip oracle).events) ∧
    p ∉ completedOf (optimize v gs skip oracle).events := by
  have hsv : solvesOf (optimize v gs skip oracle).events = solvesOf (core v gs skip oracle).events := by
    rw [optimize_events, solvesOf_append]; simp [solvesOf]
  have h7 := (loop_solves (effSkip v skip) oracle (priorities gs) 0 false none none).2.2.2.2.2.2
  have hno : ∀ ok, (p, ok) ∉ solvesOf (optimize v gs skip oracle).events := by
    intro ok hmem
    rw [hsv] at hmem
    have := h7 (p, ok) hmem
    simp only at this
    rw [hp] at this
    cases this
  refine ⟨hno, ?_⟩
  rw [C10_completed_iff_success]
  intro hmem
  simp only [List.mem_map, List.mem_filter] at hmem
  obtain ⟨x, ⟨hx, _⟩, hxp⟩ := hmem
  obtain ⟨a, b⟩ := x
  simp only at hxp
  subst hxp
  exact hno b hx

theorem C10_single_pass_ignores_skip (gs : List Goal) (skip : Int → Bool) (oracle : Nat → Bool) :
    optimize .singlePass gs skip oracle = optimize .singlePass gs (fun _ => false) oracle := rfl

/-- **One oracle value per solver call**: the k-th solver call of the run gets the outcome
    `oracle k`; the number of calls is the number of `solve` events. -/
theorem C10_oracle_consumption (v : Variant) (gs : List Goal) (skip : Int → Bool) (oracle : Nat → Bool) :
    (optimize v gs skip oracle).nsolves = (solvesOf (optimize v gs skip oracle).events).length ∧
    ∀ i (hi : i < (solvesOf (optimize v gs skip oracle).events).length),
      ((solvesOf (optimize v gs skip oracle).events)[i]'hi).2 = oracle i := by
  have hsv : solvesOf (optimize v gs skip oracle).events = solvesOf (core v gs skip oracle).events := by
    rw [optimize_events, solvesOf_append]; simp [solvesOf]
  have hs := loop_solves (effSkip v skip) oracle (priorities gs) 0 false none none
  simp only at hs
  obtain ⟨h1, h2, _⟩ := hs
  constructor
  · show (core v gs skip oracle).nsolves = _
    rw [hsv]; unfold core; rw [h1]; simp
  · intro i hi
    have := h2 i (by rw [hsv] at hi; exact hi)
    simp only [Nat.zero_add] at this
    rw [← this]
    simp only [hsv]
    rfl

/-! ### several `optimize()` calls on the same instance -/

/-- **What is exposed after the k-th call**: the cache of run `k` itself (its last successful
    priority) if run `k` completed a priority; otherwise the base class — the failed solve of run
    `k`, or, only when run `k` never called the solver, the output of the most recent earlier
    solver call.  The results cache and flag carried over from earlier runs (`st.results`,
    `st.current`) do not occur on the right-hand side. -/
theorem C10_run_exposure (v : Variant) (k : Nat) (st : Persist) (r : RunSpec) :
    exposedS (runOnce v true k st r).1 =
      match lastOk (solvesOf (optimize v r.gs r.skip r.oracle).events) with
      | some p => .cached k p
      | none =>
        match (solvesOf (optimize v r.gs r.skip r.oracle).events).getLast? with
        | some (p, ok) => .raw k p ok
        | none =>
          match st.lastRaw with
          | some (j, p, ok) => .raw j p ok
          | none => .nothing := by
  obtain ⟨hc, hr⟩ := optimize_cache_raw v r.gs r.skip r.oracle
  unfold runOnce exposedS
  simp only [if_true]
  rw [hc, hr]
  cases lastOk (solvesOf (optimize v r.gs r.skip r.oracle).events) with
  | some p => simp
  | none =>
    simp only [Bool.false_eq_true, if_false]
    cases (solvesOf (optimize v r.gs r.skip r.oracle).events).getLast? with
    | some x => obtain ⟨p, ok⟩ := x; rfl
    | none => rfl

/-- **Runs are independent**: in any sequence of `optimize()` calls on one instance, the log and
    return value of the i-th call are those of a single call with that call's goals, hook and
    solver outcomes (so every theorem above holds per call), and if cached results are exposed
    after the i-th call they were captured IN the i-th call, at its last successful priority — the
    cache of an earlier call is never exposed by a later one; the `AttributeError` branch is
    never reached. -/
theorem C10_runs_independent (v : Variant) (rs : List RunSpec) (i : Nat) (hi : i < rs.length) :
    ((optimizeSeq v rs)[i]'(by unfold optimizeSeq; rw [seqFrom_length]; exact hi)).1
        = optimize v rs[i].gs rs[i].skip rs[i].oracle ∧
    ((optimizeSeq v rs)[i]'(by unfold optimizeSeq; rw [seqFrom_length]; exact hi)).2 ≠ .broken ∧
    ∀ j p, ((optimizeSeq v rs)[i]'(by unfold optimizeSeq; rw [seqFrom_length]; exact hi)).2 = .cached j p →
      j = i ∧ lastOk (solvesOf (optimize v rs[i].gs rs[i].skip rs[i].oracle).events) = some p := by
  obtain ⟨sti, h⟩ := seqFrom_get v true rs 0 Persist.init i hi
  unfold optimizeSeq
  rw [h]
  simp only [Nat.zero_add]
  have hx := C10_run_exposure v i sti rs[i]
  refine ⟨rfl, ?_, ?_⟩
  · rw [hx]
    cases lastOk (solvesOf (optimize v rs[i].gs rs[i].skip rs[i].oracle).events) with
    | some p => simp
    | none =>
      cases (solvesOf (optimize v rs[i].gs rs[i].skip rs[i].oracle).events).getLast? with
      | some x => obtain ⟨p, ok⟩ := x; simp
      | none =>
        cases sti.lastRaw with
        | some y => obtain ⟨a, b, c⟩ := y; simp
        | none => simp
  · intro j p hj
    rw [hx] at hj
    cases hl : lastOk (solvesOf (optimize v rs[i].gs rs[i].skip rs[i].oracle).events) with
    | some q =>
      rw [hl] at hj
      simp only [ExposedS.cached.injEq] at hj
      exact ⟨hj.1.symm, by rw [hj.2]⟩
    | none =>
      rw [hl] at hj
      cases hg : (solvesOf (optimize v rs[i].gs rs[i].skip rs[i].oracle).events).getLast? with
      | some x => obtain ⟨a, ok⟩ := x; rw [hg] at hj; simp at hj
      | none =>
        rw [hg] at hj
        cases hs : sti.lastRaw with
        | some y => obtain ⟨a, b, c⟩ := y; rw [hs] at hj; simp at hj
        | none => rw [hs] at hj; simp at hj

/-- **The statement-level reference agrees with the model**: one `optimize()` call written out
    statement by statement over the attributes the code has (`Model/C10Loop.lean`: hook, skip test,
    solver call, `break`, the three cache statements, completion hook; the reset before the loop) —
    the target of the source translation `Gen/PriorityLoop.lean` — produces exactly the log and
    return value of `optimize` and leaves the instance in the state `runOnce` describes; inside
    every `priority_completed(q)` hook `extract_results()` shows the output of the solve at `q` of
    this very call.  Hence every theorem above applies to the translated source. -/
theorem C10_reference_agrees (v : Variant) (run : Nat) (pst : Persist) (r : RunSpec) :
    (optimizeRef v run pst r).events = (optimize v r.gs r.skip r.oracle).events ∧
    (optimizeRef v run pst r).success = (optimize v r.gs r.skip r.oracle).success ∧
    (optimizeRef v run pst r).persist = (runOnce v true run pst r).1 ∧
    exposedS (optimizeRef v run pst r).persist = exposedS (runOnce v true run pst r).1 ∧
    (optimizeRef v run pst r).views
      = (completedOf (optimize v r.gs r.skip r.oracle).events).map (fun q => (q, some (run, q))) := by
  obtain ⟨h1, h2, h3, h4⟩ := optimizeRef_eq_model v run pst r
  exact ⟨h1, h2, h3, by rw [h3], h4⟩

private def oneGoal : List Goal := [⟨1, ⟨false, [XVal.nan]⟩, ⟨false, [XVal.nan]⟩⟩,
                                     ⟨2, ⟨false, [XVal.nan]⟩, ⟨false, [XVal.nan]⟩⟩]

/-- **The reset at the start of `optimize()` is not redundant** (witness about the variant
    without `self.__results_are_current = False` before the loop): run 0 completes priorities 1 and
    2, run 1 fails at its first priority — the variant still exposes run 0's cache, the code
    exposes the failed solve of run 1. -/
theorem C10_reset_not_redundant_witness :
    ((seqFrom .multiPass false 0 Persist.init
        [⟨oneGoal, fun _ => false, scriptOracle []⟩, ⟨oneGoal, fun _ => false, scriptOracle [false]⟩]).map
          (·.2)) = [.cached 0 2, .cached 0 2] ∧
    ((optimizeSeq .multiPass
        [⟨oneGoal, fun _ => false, scriptOracle []⟩, ⟨oneGoal, fun _ => false, scriptOracle [false]⟩]).map
          (·.2)) = [.cached 0 2, .raw 1 1 false] := by
  constructor <;> decide +kernel

/-! ### non-vacuity: a concrete goal set (negative, duplicate, non-integral priorities, an empty goal) -/

private def nanT : Target := ⟨false, [XVal.nan]⟩
private def gsEx : List Goal :=
  [⟨3, nanT, nanT⟩, ⟨-5, nanT, nanT⟩, ⟨3, nanT, nanT⟩, ⟨7, ⟨true, [XVal.fin 2, XVal.nan]⟩, nanT⟩,
   ⟨5/2, nanT, nanT⟩, ⟨100, ⟨true, [XVal.nan, XVal.nan]⟩, nanT⟩]

example : priorities gsEx = [-5, 2, 3, 7] := by decide +kernel
example : gsEx.map isEmpty = [false, false, false, false, false, true] := by decide +kernel

/-- partly finite targets: max only / min only / vector / ±inf entries; all-non-finite series are empty,
    an all-NaN plain vector is no target at all (minimisation goal) -/
private def gsPart : List Goal :=
  [⟨1, nanT, ⟨true, [XVal.fin 5, XVal.nan, XVal.pinf]⟩⟩,          -- max only, some entries finite
   ⟨2, ⟨true, [XVal.nan, XVal.ninf]⟩, ⟨true, [XVal.pinf, XVal.nan]⟩⟩,  -- both sides, nothing finite: empty
   ⟨3, ⟨false, [XVal.nan, XVal.fin 1]⟩, nanT⟩,                     -- numpy vector, one finite entry
   ⟨4, ⟨false, [XVal.nan, XVal.nan]⟩, nanT⟩,                       -- all-NaN vector: minimisation goal
   ⟨5, ⟨true, [XVal.nan, XVal.nan]⟩, ⟨true, [XVal.nan, XVal.fin 6]⟩⟩,  -- min side empty, max side partly finite
   ⟨6, nanT, ⟨true, [XVal.pinf, XVal.pinf]⟩⟩]                      -- max only, all +inf: empty

example : gsPart.map isEmpty = [false, true, false, false, false, true] := by decide +kernel
example : priorities gsPart = [1, 3, 4, 5] := by decide +kernel
example : ∃ g ∈ gsPart, (∃ x ∈ g.targetMin.vals ++ g.targetMax.vals, x.isFinite = true) ∧
    (∃ x ∈ g.targetMin.vals ++ g.targetMax.vals, x.isFinite = false) ∧ isEmpty g = false :=
  ⟨⟨1, nanT, ⟨true, [XVal.fin 5, XVal.nan, XVal.pinf]⟩⟩, List.Mem.head _, ⟨XVal.fin 5, by simp [nanT], rfl⟩,
    ⟨XVal.nan, by simp [nanT], rfl⟩, by decide +kernel⟩

/-- failure at the third priority: stop, `False`, cached results of priority 2 stay exposed -/
example :
    let r := optimize .multiPass gsEx (fun _ => false) (scriptOracle [true, true, false, true])
    r.events = [.started (-5), .solve (-5) true, .completed (-5), .started 2, .solve 2 true,
                .completed 2, .started 3, .solve 3 false, .post]
      ∧ r.success = false ∧ exposed r = .cached 2 := by decide +kernel

/-- failure at the first priority: nothing cached, the base class shows the failed solve -/
example : exposed (optimize .singlePass gsEx (fun _ => false) (scriptOracle [false])) = .raw (-5) false := by
  decide +kernel

/-- all succeed -/
example :
    let r := optimize .singlePass gsEx (fun _ => true) (scriptOracle [])
    startedOf r.events = [-5, 2, 3, 7] ∧ r.success = true ∧ exposed r = .cached 7 := by decide +kernel

/-- a priority removed by the hook -/
example :
    let r := optimize .multiPass gsEx (fun p => p == 2) (scriptOracle [])
    r.events = [.started (-5), .solve (-5) true, .completed (-5), .started 2, .started 3,
                .solve 3 true, .completed 3, .started 7, .solve 7 true, .completed 7, .post] := by
  decide +kernel

end RtcVerif.C10
