import RtcVerif.Model.C11
namespace RtcVerif.C11

/-- the code before 658d814 moves a forecast date that lies on the grid (step 7 h, 28 h after the
    start) off the grid -/
theorem C11_floor_date_time_legacy_witness :
    floorDTLegacy 0 25200 100800 = 111600 ∧ floorDT 0 25200 100800 = 100800 := by decide

end RtcVerif.C11
