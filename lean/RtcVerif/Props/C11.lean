import RtcVerif.Model.C11
import RtcVerif.Model.C11Csv
import RtcVerif.Model.C11Bin
import RtcVerif.Proofs.C11Lemmas
import RtcVerif.Proofs.C11Roundtrip
import RtcVerif.Proofs.C11Neq
/-!
# C11 — time-series files round-trip: what is written is what is read

Property theorems about the record-level model `Model/C11.lean` (all series lengths, step sizes,
forecast positions, ensemble sizes, NaN patterns, resize sequences — unbounded).
Helper lemmas: `Proofs/C11Lemmas.lean`, `Proofs/C11Roundtrip.lean`.
-/
namespace RtcVerif.C11

/-! ## PI XML / binary round trip -/

/-- **PI XML: what is written is what is read.**  For every well-formed in-memory object (`WF`:
    any number of stamps ≥ 1, any positive step or strictly increasing nonequidistant stamps, any
    forecast position, any ensemble size, any variables/units, any NaN/±inf pattern) whose finite
    values differ from the missing-value sentinel the writer announces (−999, the PI convention):
    `write` succeeds and `read` of the written records returns the very same object — time stamps,
    step, forecast date and index, time zone, ensemble structure, units and values, with missing
    values staying missing. -/
theorem C11_pi_roundtrip (r32 : XVal → XVal) (s : Store) (hWF : WF false s)
    (hmiss : ∀ sl ∈ s.slots, ∀ e ∈ sl, ∀ v ∈ e.vals, v ≠ newMiss) :
    ∃ f, write r32 false s = some f ∧ read false f = some s := by
  refine ⟨_, write_wf false r32 s hWF, ?_⟩
  rw [read_written false r32 s hWF,
    mapVals_id_of (back false r32) s.slots (fun sl hsl e he v hv =>
      back_xml_id r32 v (hmiss sl hsl e he v hv))]

/-- **PI binary: exact up to the float32 conversion `r32`** (any function; the format's own
    rounding), everything else as for XML.  Nonequidistant data are excluded by `WF true`
    (the binary file has no place for their stamps). -/
theorem C11_pi_roundtrip_binary (r32 : XVal → XVal) (s : Store) (hWF : WF true s)
    (hmiss : ∀ sl ∈ s.slots, ∀ e ∈ sl, ∀ v ∈ e.vals, r32 v ≠ newMiss) :
    ∃ f, write r32 true s = some f ∧
      read true f = some { s with slots := mapVals (List.map r32) s.slots } := by
  refine ⟨_, write_wf true r32 s hWF, ?_⟩
  rw [read_written true r32 s hWF]
  have : mapVals (List.map (back true r32)) s.slots = mapVals (List.map r32) s.slots := by
    unfold mapVals
    apply List.map_congr_left
    intro sl hsl
    apply List.map_congr_left
    intro e he
    have : e.vals.map (back true r32) = e.vals.map r32 :=
      List.map_congr_left (fun v hv => back_bin_id r32 v (hmiss sl hsl e he v hv))
    rw [this]
  rw [this]

/-- **Binary: the second round trip is exact** for every idempotent rounding `r32`
    (`r32 (r32 x) = r32 x`): what was read from a binary file is written and read back unchanged. -/
theorem C11_binary (r32 : XVal → XVal) (hidem : ∀ x, r32 (r32 x) = r32 x) (s : Store)
    (hWF : WF true s) (hmiss : ∀ sl ∈ s.slots, ∀ e ∈ sl, ∀ v ∈ e.vals, r32 v ≠ newMiss) :
    ∃ f1 s1 f2, write r32 true s = some f1 ∧ read true f1 = some s1 ∧
      write r32 true s1 = some f2 ∧ read true f2 = some s1 := by
  obtain ⟨f1, hw1, hr1⟩ := C11_pi_roundtrip_binary r32 s hWF hmiss
  have hWF1 := WF_mapVals true s hWF r32
  have hmiss1 : ∀ sl ∈ (mapVals (List.map r32) s.slots), ∀ e ∈ sl, ∀ v ∈ e.vals, r32 v ≠ newMiss := by
    intro sl' hsl' e' he' v hv
    obtain ⟨sl, hsl, rfl⟩ := mem_mapVals _ _ _ hsl'
    rw [List.mem_map] at he'
    obtain ⟨e, he, rfl⟩ := he'
    simp only [List.mem_map] at hv
    obtain ⟨w, hw, rfl⟩ := hv
    rw [hidem]
    exact hmiss sl hsl e he w hw
  obtain ⟨f2, hw2, hr2⟩ := C11_pi_roundtrip_binary r32 _ hWF1 hmiss1
  refine ⟨f1, _, f2, hw1, hr1, hw2, ?_⟩
  rw [hr2]
  congr 1
  have : mapVals (List.map r32) (mapVals (List.map r32) s.slots) = mapVals (List.map r32) s.slots := by
    apply mapVals_id_of
    intro sl' hsl' e' he' v hv
    obtain ⟨sl, hsl, rfl⟩ := mem_mapVals _ _ _ hsl'
    rw [List.mem_map] at he'
    obtain ⟨e, he, rfl⟩ := he'
    simp only [List.mem_map] at hv
    obtain ⟨w, _, rfl⟩ := hv
    exact hidem w
  simp only [this]

/-- the PI missing-value convention (hypothesis `hmiss` above is needed): a genuine value −999
    written to a new file reads back as missing -/
theorem C11_miss_collision_witness :
    back false id (XVal.fin (-999)) = XVal.nan ∧ back false id (XVal.fin 5) = XVal.fin 5 ∧
    back false id XVal.nan = XVal.nan := by
  decide +kernel

/-! ## series shorter than the global range -/

/-! ### third-party binary files: missing samples stored as float32(missVal) -/

/-- **Binary: missing stays missing, whatever the missVal.**  A third-party writer stores a missing
    sample as the header's missVal converted to the storage type (`r32 miss`, e.g. float32(-999.9),
    which differs from -999.9).  Because the reader compares in the storage type
    (`missStored r32 true miss = r32 miss`), every missing sample comes back as NaN and every other
    sample as its stored value, for every conversion `r32`, every missVal (representable or not) and
    every pattern of missing samples, provided no real sample collides with the missVal in the
    storage type (the PI convention, cf. `C11_miss_collision_witness`). -/
theorem C11_binary_missing_stays_missing (r32 : XVal → XVal) (miss : XVal) (xs : List (Option XVal))
    (hno : ∀ x, some x ∈ xs → r32 x ≠ r32 miss) :
    (encodeBin r32 miss xs).map (missMap (missStored r32 true miss)) = decodedBin r32 xs := by
  unfold encodeBin decodedBin missStored
  simp only [if_true, List.map_map]
  apply List.map_congr_left
  intro o ho
  cases o with
  | none => simp [missMap]
  | some x => simp [missMap, hno x ho]

/-- the same through the reader's per-series code (`readSeries`, to which the translated parse loop is
    proved equal): a full-range binary series whose header announces `xs.length` samples and whose
    missVal is taken in the storage type yields exactly the decoded samples and leaves the rest of
    the stream for the next series -/
theorem C11_binary_missing_through_reader (r32 : XVal → XVal) (g : Geo) (h : Hdr) (miss : XVal)
    (xs : List (Option XVal)) (rest : List XVal)
    (hs : h.start = g.start) (he : h.stop = g.stop)
    (hn : nValues g h = some (xs.length : Int)) (hm : h.miss = missStored r32 true miss)
    (hno : ∀ x, some x ∈ xs → r32 x ≠ r32 miss) :
    readSeries g true ⟨h, [], []⟩ (some (encodeBin r32 miss xs ++ rest)) = some (decodedBin r32 xs, some rest) := by
  have hlen : (encodeBin r32 miss xs).length = xs.length := by simp [encodeBin]
  unfold readSeries
  simp only [hn]
  have h0 : ¬ ((xs.length : Int) < 0) := by omega
  have hpf : padFront g h = 0 := by unfold padFront; simp [hs]
  have hpb : padBack g h = 0 := by unfold padBack; simp [he]
  simp only [h0, if_false, hpf, hpb, Int.toNat_natCast, Int.toNat_zero, lt_self_iff_false, or_self, if_true]
  rw [← hlen, List.take_left, List.drop_left, hm, C11_binary_missing_stays_missing r32 miss xs hno]
  simp [nans]

/-- why the comparison width matters: with a conversion that does not represent -999.9 exactly,
    comparing the stored sample with the float64 missVal does NOT recognise it (the sample stays in
    the data as the number -999.90002…), comparing in the storage type does -/
theorem C11_binary_miss_width_witness :
    r32Witness (r32Witness (XVal.fin (-9999 / 10))) = r32Witness (XVal.fin (-9999 / 10)) ∧
    missMap (XVal.fin (-9999 / 10)) (r32Witness (XVal.fin (-9999 / 10))) ≠ XVal.nan ∧
    missMap (missStored r32Witness true (XVal.fin (-9999 / 10))) (r32Witness (XVal.fin (-9999 / 10))) = XVal.nan := by
  decide +kernel

example : readSeries ⟨some 3600, 0, 7200, [0, 3600, 7200], false, 1⟩ true
    ⟨⟨0, none, some 3600, 0, 7200, none, missStored r32Witness true (XVal.fin (-9999 / 10)), "m"⟩, [], []⟩
    (some (encodeBin r32Witness (XVal.fin (-9999 / 10)) [some (XVal.fin 1), none, some (XVal.fin 2)]))
    = some ([XVal.fin 1, XVal.nan, XVal.fin 2], some []) := by decide +kernel

/-- **Padding at the correct end.**  A series announced for the stamps `a..b` of a global grid of
    `N` stamps (`0 ≤ a ≤ b < N`, any positive step) is read into an array of `N` values that is
    NaN exactly outside `a..b` — `a` NaNs in front, `N-1-b` behind — and inside holds its own
    event values (missing-value sentinel and absent events read as NaN). -/
theorem C11_padding_correct_end (g : Geo) (d : Int) (hd : 0 < d) (hg : g.dt = some d) (N a b : Nat)
    (hstop : g.stop = g.start + ((N : Int) - 1) * d) (hab : a ≤ b) (hbN : b < N) (r : Rec)
    (hstep : r.hdr.step = some d) (hs : r.hdr.start = g.start + (a : Int) * d)
    (he : r.hdr.stop = g.start + (b : Int) * d) (stream : Option (List XVal)) :
    ∃ vals, readSeries g false r stream = some (vals, stream) ∧ vals.length = N ∧
      ∀ i, i < N → vals.getD i XVal.nan =
        if a ≤ i ∧ i ≤ b then missMap r.hdr.miss (r.evs.getD (i - a) XVal.nan) else XVal.nan := by
  have hd0 : d ≠ 0 := Int.ne_of_gt hd
  have hn : nValues g r.hdr = some (((b - a + 1 : Nat) : Int)) := by
    unfold nValues
    rw [hg, hstep]
    simp only []
    rw [if_neg hd0, hs, he,
      show g.start + (b : Int) * d - (g.start + (a : Int) * d) = ((b : Int) - a) * d by ring,
      roundDivP1_mul _ d hd0]
    congr 1
    omega
  have hpf : padFront g r.hdr = (a : Int) := by
    unfold padFront
    rw [hg, hstep, hs]
    by_cases ha : a = 0
    · subst ha; simp
    · have : g.start < g.start + (a : Int) * d := by
        have : 0 < (a : Int) * d := by positivity
        omega
      rw [if_pos this]
      simp only [Option.getD_some]
      rw [show g.start + (a : Int) * d - g.start = (a : Int) * d by ring, roundDiv_mul _ d hd0]
  have hpb : padBack g r.hdr = ((N - 1 - b : Nat) : Int) := by
    unfold padBack
    rw [hg, hstep, he, hstop]
    by_cases hb : b = N - 1
    · subst hb
      have : ((N - 1 : Nat) : Int) = (N : Int) - 1 := by omega
      rw [this]
      simp
    · have hlt : (b : Int) < (N : Int) - 1 := by omega
      have : g.start + (b : Int) * d < g.start + ((N : Int) - 1) * d := by
        have : 0 < ((N : Int) - 1 - b) * d := by
          apply mul_pos <;> omega
        nlinarith
      rw [if_pos this]
      simp only [Option.getD_some]
      rw [show g.start + ((N : Int) - 1) * d - (g.start + (b : Int) * d)
          = ((N : Int) - 1 - b) * d by ring, roundDiv_mul _ d hd0]
      omega
  refine ⟨nans a ++ (takePad (b - a + 1) r.evs).map (missMap r.hdr.miss) ++ nans (N - 1 - b), ?_, ?_, ?_⟩
  · unfold readSeries
    rw [hn, hpf, hpb]
    simp only [Int.toNat_natCast]
    rw [if_neg (by omega)]
    simp
  · simp only [List.length_append, nans_length, List.length_map, takePad_length]
    omega
  · intro i hi
    rw [getD_padded]
    simp only [List.length_map, takePad_length]
    by_cases hin : a ≤ i ∧ i ≤ b
    · rw [if_pos ⟨hin.1, by omega⟩, if_pos hin]
      rw [List.getD_eq_getElem?_getD, List.getElem?_map]
      have hlt : i - a < (takePad (b - a + 1) r.evs).length := by rw [takePad_length]; omega
      rw [List.getElem?_eq_getElem hlt]
      simp only [Option.map_some, Option.getD_some]
      congr 1
      have := getD_takePad (b - a + 1) (i - a) (by omega) r.evs
      rw [List.getD_eq_getElem?_getD, List.getElem?_eq_getElem hlt] at this
      simpa using this
    · rw [if_neg hin, if_neg (by omega)]

/-! ## `__floor_date_time` -/

/-- **The forecast date is moved onto the step grid** `gstart + k·d`, by at most half a step, and a
    forecast date that already lies on the grid is kept — for offsets of any number of days and
    any positive step (the repaired code, commit 658d814). -/
theorem C11_floor_date_time (g d f : Int) (hd : 0 < d) :
    (∃ k : Int, floorDT g d f = g + k * d) ∧
    (-d < 2 * (floorDT g d f - f) ∧ 2 * (floorDT g d f - f) ≤ d) ∧
    (∀ j : Int, f = g + j * d → floorDT g d f = f) := by
  have h2d : 0 < 2 * d := by omega
  refine ⟨⟨(2 * (f - g) + d) / (2 * d), by unfold floorDT; ring⟩, ?_, ?_⟩
  · unfold floorDT
    have h1 := Int.ediv_mul_le (2 * (f - g) + d) (Int.ne_of_gt h2d)
    have h2 := Int.lt_ediv_add_one_mul_self (2 * (f - g) + d) h2d
    simp only []
    generalize (2 * (f - g) + d) / (2 * d) = k at h1 h2 ⊢
    have e1 : k * (2 * d) = 2 * (k * d) := by ring
    have e2 : (k + 1) * (2 * d) = 2 * (k * d) + 2 * d := by ring
    rw [e1] at h1
    rw [e2] at h2
    generalize k * d = m at h1 h2 ⊢
    constructor <;> omega
  · intro j hj
    rw [hj]
    exact floorDT_grid g d j hd

/-- the code before 658d814 (`timedelta.seconds`, whole days dropped) moves a forecast date that
    lies on the grid (step 7 h, 28 h after the start) off the grid; the repaired code keeps it -/
theorem C11_floor_date_time_legacy_witness :
    floorDTLegacy 0 25200 100800 = 111600 ∧ ¬ (∃ k : Int, (111600 : Int) = 0 + k * 25200) ∧
    floorDT 0 25200 100800 = 100800 := by
  refine ⟨by decide, ?_, by decide⟩
  rintro ⟨k, hk⟩
  omega

/-! ## CSV -/

/-- **Six-decimal text precision**: printing with `%f` (correctly rounded, ties to even) and
    parsing back moves a value by at most half a unit of the sixth decimal. -/
theorem C11_csv_precision (x : Rat) : |round6 x - x| ≤ 1 / 2 * (1 / 1000000) := by
  unfold round6
  have h := pyRound_abs (x * 1000000)
  rw [abs_le] at h ⊢
  constructor
  · rw [le_sub_iff_add_le, le_div_iff₀ (by norm_num)]
    linarith [h.1]
  · rw [sub_le_iff_le_add, div_le_iff₀ (by norm_num)]
    linarith [h.2]

/-- a value that already has six decimals is reproduced exactly (a second round trip is exact) -/
theorem C11_csv_idempotent (x : Rat) : round6 (round6 x) = round6 x := by
  unfold round6
  have e : ((pyRound (x * 1000000) : Int) : Rat) / 1000000 * 1000000
      = ((pyRound (x * 1000000) : Int) : Rat) := by field_simp
  rw [e, pyRound_intCast]

/-- ties do occur for binary64 values (odd multiples of 1/128) and go to the even neighbour, as
    `%f` prints them: `1/128 = 0.0078125 ↦ 0.007812`, `3/128 = 0.0234375 ↦ 0.023438` -/
theorem C11_csv_tie_witness :
    round6 (1 / 128) = 7812 / 1000000 ∧ round6 (3 / 128) = 23438 / 1000000 := by
  constructor <;> decide +kernel

/-! ### what `csv.py` itself decides (record-level model `Model/C11Csv.lean`) -/

/-- **`save`: one format per column** — the format list has one entry per column; every value
    column is printed with `%f` (six decimals, `C11_csv_precision`), the first column with `%s`
    exactly when it holds the time stamps. -/
theorem C11_csv_fmt (withTime : Bool) (ncols : Nat) (hn : 0 < ncols) :
    (fmtList withTime ncols).length = ncols ∧
    ∀ j, j < ncols → (fmtList withTime ncols)[j]? = some (if withTime = true ∧ j = 0 then Fmt.s else Fmt.f) := by
  unfold fmtList
  cases withTime with
  | false =>
    simp only [Bool.false_eq_true, if_false, List.length_replicate, false_and, true_and]
    intro j hj
    simp [hj]
  | true =>
    simp only [if_true, List.length_append, List.length_cons, List.length_nil, List.length_replicate, true_and]
    refine ⟨by omega, ?_⟩
    intro j hj
    cases j with
    | zero => simp
    | succ k =>
      have hk : k < ncols - 1 := by omega
      simp [hk]

/-- **`load`, semicolon dialect with decimal commas: every column has its converter and every
    float-converted column has a NaN filling value** (repaired code, finding F50): for a header
    with `nSemi` separators, column `j` gets `_string_to_float` iff `j ≤ nSemi` and it is not the
    time column; the time converter sits on column 0 only, with `with_time`; the filling keys are
    exactly the float-converted columns. -/
theorem C11_csv_converters (withTime : Bool) (nSemi nComma : Nat) (hc : nComma ≠ 0) (j : Nat) :
    ((j, Conv.flt) ∈ convTable withTime true nSemi nComma ↔ (j ≤ nSemi ∧ (withTime = true → j ≠ 0))) ∧
    ((j, Conv.time) ∈ convTable withTime true nSemi nComma ↔ (withTime = true ∧ j = 0)) ∧
    (j ∈ fillKeys (convTable withTime true nSemi nComma) ↔ (j, Conv.flt) ∈ convTable withTime true nSemi nComma) := by
  have hfill : ∀ c : List (Nat × Conv), j ∈ fillKeys c ↔ (j, Conv.flt) ∈ c := by
    intro c
    unfold fillKeys
    simp only [List.mem_map, List.mem_filter, beq_iff_eq]
    constructor
    · rintro ⟨⟨a, b⟩, ⟨hm, hb⟩, ha⟩
      simp only at hb ha
      subst hb; subst ha; exact hm
    · intro hm
      exact ⟨(j, Conv.flt), ⟨hm, rfl⟩, rfl⟩
  refine ⟨?_, ?_, hfill _⟩
  · unfold convTable
    cases withTime with
    | false =>
      simp only [hc, Bool.true_and, bne_iff_ne, ne_eq, not_false_eq_true, if_true, Bool.false_eq_true,
        if_false, List.nil_append, List.length_nil, List.mem_map, List.mem_range, Prod.mk.injEq, and_true, false_imp_iff]
      constructor
      · rintro ⟨i, hi, rfl⟩; omega
      · intro h; exact ⟨j, by omega, by omega⟩
    | true =>
      simp only [hc, Bool.true_and, bne_iff_ne, ne_eq, not_false_eq_true, if_true,
        List.length_cons, List.length_nil, List.mem_append, List.mem_cons, List.mem_map, List.mem_range, Prod.mk.injEq,
        List.not_mem_nil, or_false, and_true, forall_const, reduceCtorEq, and_false, false_or]
      constructor
      · rintro ⟨i, hi, rfl⟩; omega
      · intro h; exact ⟨j - 1, by omega, by omega⟩
  · unfold convTable
    cases withTime with
    | false => simp [hc]
    | true => simp [hc]

/-- **cell round trip**: a value printed with `%f` (decimal point or comma) and loaded through the
    float converter is the six-decimal value (finite values: `round6`, so `C11_csv_precision`
    bounds the error; NaN / ±inf unchanged); an empty cell of a filled column is missing (NaN), not
    0.0; printing a loaded value again changes nothing. -/
theorem C11_csv_cell_roundtrip (x : XVal) (cm filled : Bool) :
    loadFltCell filled (saveCell Fmt.f (Cell.num x cm)) = some (print6X x) ∧
    loadFltCell true Cell.empty = some XVal.nan ∧
    (∀ q : Rat, print6X (XVal.fin q) = XVal.fin (round6 q)) ∧
    print6X (print6X x) = print6X x := by
  refine ⟨rfl, rfl, fun q => rfl, ?_⟩
  cases x with
  | nan => rfl
  | e v =>
    cases v with
    | fin q =>
      show XVal.fin (round6 (round6 q)) = XVal.fin (round6 q)
      rw [C11_csv_idempotent]
    | pinf => rfl
    | ninf => rfl

example : fmtList true 3 = [Fmt.s, Fmt.f, Fmt.f] := by decide
example : convTable true true 2 3 = [(0, Conv.time), (1, Conv.flt), (2, Conv.flt)] := by decide
example : fillKeys (convTable true true 2 3) = [1, 2] := by decide
example : convTable false true 1 1 = [(0, Conv.flt), (1, Conv.flt)] := by decide
example : loadFltCell false Cell.empty = some (XVal.fin 0) := rfl   -- the F50 behaviour without filling values

/-! ## NetCDF time axis -/

/-- **NetCDF: the time stamps read back are the ones written.**  `write_times(times, ft, fd)`
    (`fd` = the date of time `ft`) followed by `read_import_times` gives `fd + (t - ft)` for every
    `t`, whatever the sign of the times, and the stored axis values are never negative
    (repaired code, commit 2e78bfd). -/
theorem C11_netcdf_times (times : List Int) (ft fd : Int) (hne : times ≠ []) :
    ∃ w, ncWriteTimes times ft fd = some w ∧
      ncReadTimes w = times.map (fun t => fd + (t - ft)) ∧ ∀ v ∈ w.1, 0 ≤ v := by
  obtain ⟨m, hm⟩ := minList_some_of_ne times hne
  have hle := minList_le times m hm
  unfold ncWriteTimes
  rw [hm]
  simp only []
  by_cases hneg : m < 0
  · rw [if_pos hneg]
    refine ⟨_, rfl, ?_, ?_⟩
    · unfold ncReadTimes
      simp only [List.map_map]
      apply List.map_congr_left
      intro t _
      simp only [Function.comp]
      omega
    · intro v hv
      simp only [List.mem_map] at hv
      obtain ⟨t, ht, rfl⟩ := hv
      have := hle t ht
      omega
  · rw [if_neg hneg]
    refine ⟨_, rfl, ?_, ?_⟩
    · unfold ncReadTimes
      apply List.map_congr_left
      intro t _
      omega
    · intro v hv
      have := hle v hv
      omega

/-- finding F40 (witness, code before 2e78bfd): with forecast time 3600 and no negative time the
    axis was labelled one hour late; with a negative time present it was right -/
theorem C11_netcdf_times_F40_witness :
    (ncWriteTimesLegacy [0, 3600, 7200] 3600 100000).map ncReadTimes = some [100000, 103600, 107200] ∧
    (ncWriteTimes [0, 3600, 7200] 3600 100000).map ncReadTimes = some [96400, 100000, 103600] ∧
    (ncWriteTimesLegacy [-3600, 0, 3600] 3600 100000).map ncReadTimes = some [92800, 96400, 100000] := by
  decide +kernel

/-! ## parameter files and id mapping -/

/-- **Typed parameter values round-trip through `set`/`get`**: after a successful `set`, `get` with
    the same arguments returns the value coerced to the element's type (`boolValue` keeps the
    bool, `intValue` the integer part, `dblValue` the float), and every other parameter id keeps
    its value under every lookup. -/
theorem C11_param_roundtrip (c c' : PConf) (gid p : Nat) (a : PArg) (loc model : Option Nat)
    (h : pset c gid p a loc model = some c') :
    (∃ old v, pget c gid p loc model = some old ∧ coerce old a = some v ∧
        pget c' gid p loc model = some v) ∧
    (∀ gid' p' loc' model', p' ≠ p → pget c' gid' p' loc' model' = pget c gid' p' loc' model') := by
  induction c generalizing c' with
  | nil => cases h
  | cons g rest ih =>
    simp only [pset] at h
    by_cases hp : g.passes gid loc model = true
    · rw [if_pos hp] at h
      cases hf : findPar p g.pars with
      | none => rw [hf] at h; cases h
      | some old =>
        rw [hf] at h
        simp only [] at h
        cases hc : coerce old a with
        | none => rw [hc] at h; cases h
        | some v =>
          rw [hc] at h
          simp only [Option.some.injEq] at h
          subst h
          constructor
          · refine ⟨old, v, ?_, hc, ?_⟩
            · simp only [pget, hp, if_true]; exact hf
            · have hp' : ({ g with pars := setPar p v g.pars } : PGroup).passes gid loc model = true := hp
              simp only [pget, hp', if_true]
              exact findPar_setPar_same p v g.pars old hf
          · intro gid' p' loc' model' hne
            have hp' : ({ g with pars := setPar p v g.pars } : PGroup).passes gid' loc' model'
                = g.passes gid' loc' model' := rfl
            simp only [pget, hp']
            split
            · exact findPar_setPar_other p p' hne v g.pars
            · rfl
    · rw [if_neg hp] at h
      cases hr : pset rest gid p a loc model with
      | none => rw [hr] at h; cases h
      | some r' =>
        rw [hr] at h
        simp only [Option.map_some, Option.some.injEq] at h
        subst h
        obtain ⟨⟨old, v, h1, h2, h3⟩, h4⟩ := ih r' hr
        constructor
        · refine ⟨old, v, ?_, h2, ?_⟩
          · simp only [pget, hp]; exact h1
          · simp only [pget, hp]; exact h3
        · intro gid' p' loc' model' hne
          simp only [pget]
          split
          · rfl
          · exact h4 gid' p' loc' model' hne

/-- **Id mapping is one-to-one in both directions** for every accepted rtcDataConfig (the
    constructor rejects double mappings): the header made from `pi_variable_ids(v)` — with its
    qualifiers in any order — maps back to `v`. -/
theorem C11_id_roundtrip (c : DataConfig) (hv : dcValid c = true) (i : Nat) (e : ExtId)
    (hmem : (i, e) ∈ c) :
    dcIds c i = some e ∧
    ∀ h : ExtId, h.key = e.key → dcVariable c h = some i := by
  induction c with
  | nil => cases hmem
  | cons x l ih =>
    obtain ⟨i0, e0⟩ := x
    simp only [dcValid, Bool.and_eq_true, Bool.not_eq_true'] at hv
    obtain ⟨⟨hv1, hv2⟩, hv3⟩ := hv
    rcases List.mem_cons.1 hmem with heq | hin
    · cases heq
      constructor
      · simp [dcIds, List.find?]
      · intro h hk
        simp [dcVariable, List.find?, hk]
    · have hne1 : (i0 == i) = false := by
        rw [List.any_eq_false] at hv1
        have := hv1 (i, e) hin
        simp only [Bool.not_eq_true] at this
        rw [beq_eq_false_iff_ne] at this ⊢
        exact fun h => this h.symm
      have hne2 : ∀ h : ExtId, h.key = e.key → (e0.key == h.key) = false := by
        intro h hk
        rw [List.any_eq_false] at hv2
        have := hv2 (i, e) hin
        simp only [Bool.not_eq_true] at this
        rw [beq_eq_false_iff_ne] at this ⊢
        rw [hk]
        exact fun h' => this h'.symm
      obtain ⟨ih1, ih2⟩ := ih hv3 hin
      constructor
      · simp only [dcIds, List.find?, hne1]
        exact ih1
      · intro h hk
        simp only [dcVariable, List.find?, hne2 h hk]
        exact ih2 h hk

/-! ## resize -/

/-- windows of a resize sequence: on the grid of the series and non-empty (they may lie anywhere
    relative to the current range, also entirely before or after it) -/
def OkSeq (d : Int) : Int → Int → List (Int × Int) → Prop
  | _, _, [] => True
  | start, stop, w :: ws =>
    (∃ a : Int, w.1 = start + a * d) ∧ (∃ b : Int, w.2 = stop + b * d) ∧ w.1 ≤ w.2 ∧
      OkSeq d w.1 w.2 ws

/-- every series has one value per stamp of `[start, stop]`, and `times` lists these stamps -/
def Aligned (d : Int) (s : Store) : Prop :=
  s.dt = some d ∧ ∃ n : Nat, 1 ≤ n ∧ s.stop = s.start + ((n : Int) - 1) * d ∧
    s.times = gridTimes s.start d n ∧
    ∀ m v vals, s.get m v = some vals → vals.length = n

/-- one `resize` call on an equidistant object (any window on its grid): values at the surviving
    stamps are kept, new stamps hold NaN, the object stays aligned -/
theorem C11_resize_one_call (d : Int) (hd : 0 < d) (s : Store) (hA : Aligned d s) (ns ne : Int)
    (a b : Int) (ha : ns = s.start + a * d) (hb : ne = s.stop + b * d) (hle : ns ≤ ne) :
    ∃ s', resize ns ne s = some s' ∧ s'.start = ns ∧ s'.stop = ne ∧ Aligned d s' ∧
      ∀ m v vals, s.get m v = some vals →
        ∃ vals', s'.get m v = some vals' ∧
          ∀ t, valueAt ns d vals' t
            = if ns ≤ t ∧ t ≤ ne then valueAt s.start d vals t else XVal.nan := by
  obtain ⟨hdt, n, hn, hstop, htimes, hlen⟩ := hA
  have hd0 : d ≠ 0 := Int.ne_of_gt hd
  have ea : roundDiv (ns - s.start) d = a := by
    rw [ha, show s.start + a * d - s.start = a * d by ring, roundDiv_mul a d hd0]
  have hnab : 1 ≤ (n : Int) - a + b := by
    have h : s.start + a * d ≤ s.start + ((n : Int) - 1) * d + b * d := by
      rw [← ha, ← hstop, ← hb]; exact hle
    have : 0 ≤ ((n : Int) - 1 - a + b) * d := by nlinarith
    have := nonneg_of_mul_nonneg_left this hd
    omega
  have et : roundDiv (ne - ns) d + 1 = (n : Int) - a + b := by
    rw [hb, hstop, ha, show s.start + ((n : Int) - 1) * d + b * d - (s.start + a * d)
        = ((n : Int) - 1 + b - a) * d by ring, roundDiv_mul _ d hd0]
    ring
  let s' : Store := { s with start := ns, stop := ne,
                             times := gridTimes ns d (roundDiv (ne - ns) d + 1).toNat,
                             slots := mapVals (resize1 d s.start ns ne) s.slots }
  have hres : resize ns ne s = some s' := by
    unfold resize
    split
    · rename_i d' hd'
      rw [hdt] at hd'
      cases hd'
      rfl
    · rename_i h
      rw [hdt] at h
      cases h
  have hget : ∀ m v, s'.get m v = (s.get m v).map (resize1 d s.start ns ne) :=
    fun m v => get_mapVals _ s _ m v rfl s' rfl
  -- one series: values by index, and the new length
  have hr1 : ∀ (vals : List XVal) (i : Int), getZ (resize1 d s.start ns ne vals) i
      = if 0 ≤ i ∧ i < (n : Int) - a + b then getZ vals (i + a) else XVal.nan := by
    intro vals i
    unfold resize1
    simp only [ea, et]
    rw [getZ_shiftEnd, getZ_shiftStart]
    have : ((shiftStart a vals).length : Int) + ((n : Int) - a + b - ((shiftStart a vals).length : Int))
        = (n : Int) - a + b := by ring
    rw [this]
    by_cases h1 : i < (n : Int) - a + b
    · by_cases h0 : 0 ≤ i
      · simp [h0, h1]
      · simp [h0, h1]
    · simp [h1]
  have hr2 : ∀ (vals : List XVal), ((resize1 d s.start ns ne vals).length : Int) = (n : Int) - a + b := by
    intro vals
    unfold resize1
    simp only [ea, et]
    rw [shiftEnd_length _ _ (by omega)]
    ring
  refine ⟨s', hres, rfl, rfl, ?_, ?_⟩
  · refine ⟨hdt, ((n : Int) - a + b).toNat, by omega, ?_, ?_, ?_⟩
    · show ne = ns + ((((n : Int) - a + b).toNat : Int) - 1) * d
      rw [Int.toNat_of_nonneg (by omega), hb, hstop, ha]
      ring
    · show gridTimes ns d (roundDiv (ne - ns) d + 1).toNat = gridTimes ns d ((n : Int) - a + b).toNat
      rw [et]
    · intro m v vals' hv
      rw [hget m v] at hv
      cases hsv : s.get m v with
      | none => rw [hsv] at hv; cases hv
      | some vals =>
        rw [hsv] at hv
        simp only [Option.map_some, Option.some.injEq] at hv
        rw [← hv]
        have := hr2 vals
        omega
  · intro m v vals hsv
    refine ⟨resize1 d s.start ns ne vals, by rw [hget m v, hsv]; rfl, ?_⟩
    intro t
    have hl := hlen m v vals hsv
    unfold valueAt
    have hmod : (t - ns) % d = (t - s.start) % d := by
      rw [ha, show t - (s.start + a * d) = (t - s.start) + d * (-a) by ring, Int.add_mul_emod_self_left]
    rw [hmod]
    by_cases hdiv : (t - s.start) % d = 0
    · rw [if_pos hdiv, if_pos hdiv]
      obtain ⟨q, hq⟩ : ∃ q, t - s.start = d * q := ⟨(t - s.start) / d, by
        have := Int.emod_add_mul_ediv (t - s.start) d
        rw [hdiv] at this
        omega⟩
      have e1 : (t - s.start) / d = q := by rw [hq, Int.mul_ediv_cancel_left _ hd0]
      have e2 : (t - ns) / d = q - a := by
        rw [ha, show t - (s.start + a * d) = d * (q - a) by rw [mul_sub, ← hq]; ring,
          Int.mul_ediv_cancel_left _ hd0]
      rw [e1, e2, hr1]
      have ht : t = s.start + q * d := by linarith [hq, mul_comm d q]
      have c1 : (0 ≤ q - a) ↔ ns ≤ t := by
        rw [ha, ht]
        constructor
        · intro h; nlinarith
        · intro h
          have : 0 ≤ (q - a) * d := by nlinarith
          exact nonneg_of_mul_nonneg_left this hd
      have c2 : (q - a < (n : Int) - a + b) ↔ t ≤ ne := by
        rw [hb, hstop, ht]
        constructor
        · intro h
          have : q ≤ (n : Int) - 1 + b := by omega
          nlinarith
        · intro h
          have : 0 ≤ ((n : Int) - 1 + b - q) * d := by nlinarith
          have := nonneg_of_mul_nonneg_left this hd
          omega
      by_cases hw : ns ≤ t ∧ t ≤ ne
      · rw [if_pos hw, if_pos ⟨c1.2 hw.1, c2.2 hw.2⟩, sub_add_cancel]
      · rw [if_neg hw, if_neg (fun h => hw ⟨c1.1 h.1, c2.1 h.2⟩)]
    · rw [if_neg hdiv, if_neg hdiv]
      simp

/-- **Resizing keeps the values at the surviving time stamps** and gives NaN on new ones, for
    *every sequence* of resizes of an equidistant series (windows anywhere on the grid, also
    disjoint from the current range): after the windows `ws`, the value at stamp `t` is the original
    value if `t` lies in every window, and NaN otherwise (in particular on every stamp that was
    outside the original range, where `valueAt` of the original is NaN); the object stays aligned
    (one value per stamp, `times` = the stamps of the last window). -/
theorem C11_resize_keeps_values (d : Int) (hd : 0 < d) (ws : List (Int × Int)) :
    ∀ (s : Store), Aligned d s → OkSeq d s.start s.stop ws →
    ∃ s', resizeSeq ws s = some s' ∧ Aligned d s' ∧
      ∀ m v vals, s.get m v = some vals →
        ∃ vals', s'.get m v = some vals' ∧
          ∀ t, valueAt s'.start d vals' t
            = if (∀ w ∈ ws, w.1 ≤ t ∧ t ≤ w.2) then valueAt s.start d vals t else XVal.nan := by
  induction ws with
  | nil =>
    intro s hA _
    exact ⟨s, rfl, hA, fun m v vals h => ⟨vals, h, fun t => by simp⟩⟩
  | cons w ws ih =>
    intro s hA hok
    obtain ⟨⟨a, ha⟩, ⟨b, hb⟩, hle, hrest⟩ := hok
    obtain ⟨s1, hr, hs1, he1, hA1, hv1⟩ := C11_resize_one_call d hd s hA w.1 w.2 a b ha hb hle
    obtain ⟨s2, hr2, hA2, hv2⟩ := ih s1 hA1 (by rw [hs1, he1]; exact hrest)
    refine ⟨s2, by simp only [resizeSeq, hr]; exact hr2, hA2, ?_⟩
    intro m v vals hsv
    obtain ⟨vals1, hg1, hval1⟩ := hv1 m v vals hsv
    obtain ⟨vals2, hg2, hval2⟩ := hv2 m v vals1 hg1
    refine ⟨vals2, hg2, fun t => ?_⟩
    rw [hval2 t, hs1, hval1 t]
    by_cases hall : ∀ w' ∈ ws, w'.1 ≤ t ∧ t ≤ w'.2
    · by_cases hw : w.1 ≤ t ∧ t ≤ w.2
      · rw [if_pos hall, if_pos hw, if_pos]
        intro w' hw'
        rcases List.mem_cons.1 hw' with rfl | h
        · exact hw
        · exact hall w' h
      · rw [if_pos hall, if_neg hw, if_neg]
        intro h
        exact hw (h w (List.mem_cons_self))
    · rw [if_neg hall, if_neg]
      intro h
      exact hall (fun w' hw' => h w' (List.mem_cons_of_mem _ hw'))

/-- **Resizing a nonequidistant series** (to a window between two of its stamps; growing is
    rejected by the code) slices values and stamps together: the new stamps are exactly the old
    stamps inside the window, and every series holds at each of them the value it held before
    (repaired code, commit c8258f8: the stamps follow the values). -/
theorem C11_resize_neq_keeps_values (s : Store) (hdt : s.dt = none) (hinc : RtcVerif.C12.Inc s.times)
    (hhead : s.times.head? = some s.start) (hlast : s.times.getLast? = some s.stop)
    (ns ne : Int) (hns : ns ∈ s.times) (hne : ne ∈ s.times) (hle : ns ≤ ne) :
    ∃ s', resize ns ne s = some s' ∧ s'.start = ns ∧ s'.stop = ne ∧ s'.dt = none ∧
      (∀ t, t ∈ s'.times ↔ t ∈ s.times ∧ ns ≤ t ∧ t ≤ ne) ∧
      ∀ m v vals, s.get m v = some vals → vals.length = s.times.length →
        ∃ vals', s'.get m v = some vals' ∧ vals'.length = s'.times.length ∧
          ∀ t ∈ s'.times, RtcVerif.C12.lookupAt s'.times vals' t = RtcVerif.C12.lookupAt s.times vals t := by
  -- positions of the window in the stamp list
  have hi := RtcVerif.C12.bisect_lt_length s.times ns hns
  have hj := RtcVerif.C12.bisect_lt_length s.times ne hne
  have hij := RtcVerif.C12.bisect_mono s.times hinc ns ne hns hne hle
  have hstartmem : s.start ∈ s.times := List.mem_of_head? hhead
  have hstopmem : s.stop ∈ s.times := List.mem_of_getLast? hlast
  have hb0 : RtcVerif.C12.bisectLeft s.times s.start = 0 := by
    cases ht : s.times with
    | nil => rw [ht] at hhead; cases hhead
    | cons t l =>
      rw [ht] at hhead
      simp only [List.head?_cons, Option.some.injEq] at hhead
      subst hhead
      simp [RtcVerif.C12.bisectLeft]
  have hbl : RtcVerif.C12.bisectLeft s.times s.stop + 1 = s.times.length := by
    rw [← bisect_eq]; exact bisectLeft_last s.times hinc s.stop hlast
  have hstart_le : s.start ≤ ns := by
    by_contra h
    have h' : ns ≤ s.start := by omega
    have := RtcVerif.C12.bisect_mono s.times hinc ns s.start hns hstartmem h'
    rw [hb0] at this
    have e := RtcVerif.C12.bisect_inj s.times hinc ns s.start hns hstartmem (by omega)
    omega
  have hle_stop : ne ≤ s.stop := by
    by_contra h
    have h' : s.stop ≤ ne := by omega
    have := RtcVerif.C12.bisect_mono s.times hinc s.stop ne hstopmem hne h'
    have e := RtcVerif.C12.bisect_inj s.times hinc s.stop ne hstopmem hne (by omega)
    omega
  let f : List XVal → List XVal := fun v =>
    shiftEnd ((bisectLeft s.times ne : Int) - (bisectLeft s.times s.stop : Int))
      (shiftStart ((bisectLeft s.times ns : Int) - (bisectLeft s.times s.start : Int)) v)
  let s' : Store :=
    { s with start := ns
             stop := ne
             times := (s.times.take (bisectLeft s.times ne + 1)).drop (bisectLeft s.times ns)
             slots := mapVals f s.slots }
  have hres : resize ns ne s = some s' := by
    unfold resize
    split
    · rename_i d hd
      rw [hdt] at hd
      cases hd
    · rw [if_neg (by omega)]
  have htimes : s'.times = slice (RtcVerif.C12.bisectLeft s.times ns) (RtcVerif.C12.bisectLeft s.times ne) s.times := by
    show (s.times.take (bisectLeft s.times ne + 1)).drop (bisectLeft s.times ns) = _
    rw [bisect_eq, bisect_eq]
    rfl
  have hf : ∀ vals : List XVal, vals.length = s.times.length →
      f vals = slice (RtcVerif.C12.bisectLeft s.times ns) (RtcVerif.C12.bisectLeft s.times ne) vals := by
    intro vals hl
    show shiftEnd _ (shiftStart _ vals) = _
    rw [bisect_eq, bisect_eq, bisect_eq, bisect_eq, hb0]
    have : ((RtcVerif.C12.bisectLeft s.times s.stop : Nat) : Int) = (s.times.length : Int) - 1 := by omega
    rw [this]
    exact shift_slice s.times.length _ _ hij hj vals hl
  have hget : ∀ m v, s'.get m v = (s.get m v).map f := fun m v => get_mapVals _ s _ m v rfl s' rfl
  refine ⟨s', hres, rfl, rfl, hdt, ?_, ?_⟩
  · intro t
    rw [htimes]
    exact mem_slice_times s.times hinc ns ne hns hne t
  · intro m v vals hsv hl
    refine ⟨f vals, by rw [hget m v, hsv]; rfl, ?_, ?_⟩
    · rw [hf vals hl, htimes]
      simp only [slice, List.length_drop, List.length_take, hl]
    · intro t ht
      rw [hf vals hl, htimes] at *
      exact lookup_slice s.times hinc vals _ _ t ht

/-- finding F26 (machine-checked witness, code before f5e4157): a window that starts more than one
    step after the old end — old stamps 0..4 h, new window 7..11 h — gave 7 values instead of 5;
    the repaired code gives 5 -/
theorem C11_resize_F26_witness :
    (resize1Legacy 3600 0 14400 25200 39600
      [XVal.fin 10, XVal.fin 11, XVal.fin 12, XVal.fin 13, XVal.fin 14]).length = 7 ∧
    (resize1 3600 0 25200 39600
      [XVal.fin 10, XVal.fin 11, XVal.fin 12, XVal.fin 13, XVal.fin 14]).length = 5 := by
  constructor <;> decide +kernel

/-! ## non-vacuity -/

/-- a concrete well-formed ensemble object: 3 stamps with a 7 h step, forecast in the middle,
    two members, a missing value -/
def exStore : Store :=
  { dt := some 25200, start := 0, stop := 50400, times := [0, 25200, 50400], forecast := 25200,
    fcIndex := 1, tz := some 1, containsEns := true, ensSize := 2,
    slots := [[⟨0, "m", [XVal.fin 1, XVal.nan, XVal.fin 3]⟩, ⟨2, "s", [XVal.fin 0, XVal.fin 0, XVal.pinf]⟩],
              [⟨1, "m", [XVal.fin 7, XVal.fin 8, XVal.fin 9]⟩]] }

example : WF false exStore := by
  refine ⟨by decide, ⟨by decide, by decide, by decide⟩, by decide, by decide, by decide, by decide,
    by decide, ?_, ?_, ?_⟩
  · intro sl h
    simp [exStore] at h
    subst h
    simp
  · decide
  · decide

example : (write id false exStore).bind (read false) = some exStore := by decide +kernel


example : OkSeq 3600 0 14400 [(3600, 18000), (-7200, 7200), (25200, 39600)] := by
  refine ⟨⟨1, by norm_num⟩, ⟨1, by norm_num⟩, by norm_num,
    ⟨-3, by norm_num⟩, ⟨-3, by norm_num⟩, by norm_num,
    ⟨9, by norm_num⟩, ⟨9, by norm_num⟩, by norm_num, trivial⟩

example : valueAt 3600 3600 (resize1 3600 0 3600 18000
    [XVal.fin 10, XVal.fin 11, XVal.fin 12, XVal.fin 13, XVal.fin 14]) 7200 = XVal.fin 12 := by
  decide +kernel

end RtcVerif.C11
