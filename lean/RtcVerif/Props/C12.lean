import RtcVerif.Model.C12
namespace RtcVerif.C12

/-- finding F15 (code before 614ae95): import stamps -1,0,1,2,3 and a series with the stamps 0 and
    2 — the value for stamp 2 was stored (and retrieved) at stamp 1; the repaired code stores it
    at stamp 2 -/
theorem C12_set_alignment_legacy_witness :
    setTsLegacy [-1, 0, 1, 2, 3] (.ts [0, 2] [XVal.fin 10, XVal.fin 20]) true
      = some [XVal.nan, XVal.fin 10, XVal.fin 20, XVal.nan, XVal.nan] ∧
    setTs [-1, 0, 1, 2, 3] (.ts [0, 2] [XVal.fin 10, XVal.fin 20]) true
      = some [XVal.nan, XVal.fin 10, XVal.nan, XVal.fin 20, XVal.nan] := by
  decide +kernel

end RtcVerif.C12
