import RtcVerif.Model.C12
import RtcVerif.Proofs.C12Lemmas
/-!
# C12 — one time axis relative to t0; exports contain the results at the right times

Property theorems about `Model/C12.lean` (any number of import stamps, any position of t0 among
them, any ensemble size, any values incl. NaN).  Helper lemmas: `Proofs/C12Lemmas.lean`.
`Inc l` = the stamps are strictly increasing (what the mixins validate on reading).
-/
namespace RtcVerif.C12

/-! ## the seconds axis and the data store -/

/-- **A value stored for a datetime is the value retrieved at the corresponding offset, for every
    ensemble member.**  After `io.set_timeseries(v, datetimes, x, m)`: `get_timeseries_sec(v, m)`
    returns `x` on the axis `datetimes - reference`, so the value belonging to datetime `d` is found
    at offset `d - reference`; every other (member, variable) is untouched. -/
theorem C12_get_after_set (dts : List Int) (ref : Int) (ts : List Int)
    (hts : timesSec dts ref = some ts) (st st' : Store) (m v : Nat) (x : List XVal)
    (hset : ioSet dts.length st m v x = some st') :
    ioGet st' m v = some x ∧
    (∀ d, lookupAt ts x (d - ref) = lookupAt dts x d) ∧
    (∀ m' v', (m', v') ≠ (m, v) → ioGet st' m' v' = ioGet st m' v') := by
  unfold timesSec at hts
  split at hts
  · simp only [Option.some.injEq] at hts
    subst hts
    unfold ioSet at hset
    split at hset
    · cases hset
    · simp only [Option.some.injEq] at hset
      subst hset
      have hlen : m < (st ++ List.replicate (m + 1 - st.length) ([] : Series)).length := by
        simp only [List.length_append, List.length_replicate]; omega
      refine ⟨?_, fun d => lookup_map_sub dts x ref d, ?_⟩
      · unfold ioGet
        rw [List.getElem?_modify_eq, List.getElem?_eq_getElem hlen]
        simp [sget_sset_same]
      · intro m' v' hne
        unfold ioGet
        by_cases hm : m' = m
        · subst hm
          have hv : v' ≠ v := fun h => hne (by rw [h])
          rw [List.getElem?_modify_eq, List.getElem?_eq_getElem hlen]
          simp only [Option.map_eq_map, Option.map_some]
          rw [sget_sset_other v v' hv]
          by_cases hlt : m' < st.length
          · rw [List.getElem_append_left hlt, List.getElem?_eq_getElem hlt]
          · rw [List.getElem_append_right (Nat.le_of_not_lt hlt),
              List.getElem?_eq_none (Nat.le_of_not_lt hlt)]
            simp [sget]
        · rw [List.getElem?_modify_ne _ _ (fun h => hm h.symm)]
          by_cases hlt : m' < st.length
          · rw [List.getElem?_append_left hlt]
          · rw [List.getElem?_append_right (Nat.le_of_not_lt hlt),
              List.getElem?_eq_none (Nat.le_of_not_lt hlt)]
            by_cases h2 : m' - st.length < m + 1 - st.length
            · rw [List.getElem?_replicate]
              simp [h2, sget]
            · rw [List.getElem?_eq_none (by simp; omega)]
  · cases hts

/-- the reference datetime must be one of the import stamps; then offset 0 is on the axis -/
theorem C12_reference_on_axis (dts : List Int) (ref : Int) :
    (ref ∉ dts → timesSec dts ref = none) ∧
    (ref ∈ dts → ∃ ts, timesSec dts ref = some ts ∧ (0 : Int) ∈ ts ∧ ts.length = dts.length) := by
  constructor
  · intro h; simp [timesSec, h]
  · intro h
    refine ⟨dts.map (· - ref), by simp [timesSec, h], ?_, by simp⟩
    rw [List.mem_map]
    exact ⟨ref, h, by omega⟩

/-! ## horizon and history -/

/-- **The horizon starts at t0**: `times()` is exactly the stamps at or after the reference
    datetime, and its first entry is 0. -/
theorem C12_horizon_starts_at_t0 (dts : List Int) (hinc : Inc dts) (ref : Int) (ts : List Int)
    (hts : timesSec dts ref = some ts) :
    horizon ts = ts.filter (fun t => decide (0 ≤ t)) ∧ (horizon ts).head? = some 0 ∧
    ∀ t ∈ horizon ts, 0 ≤ t := by
  unfold timesSec at hts
  split at hts
  · rename_i href
    simp only [Option.some.injEq] at hts
    subst hts
    have hi := inc_map_sub dts hinc ref
    have h0 : (0 : Int) ∈ dts.map (· - ref) := by
      rw [List.mem_map]; exact ⟨ref, href, by omega⟩
    have hd := drop_bisect _ hi 0
    refine ⟨hd, ?_, ?_⟩
    · unfold horizon
      have hg := get_bisect _ hi 0 h0
      rw [List.head?_drop]
      exact hg
    · intro t ht
      unfold horizon at ht
      rw [hd, List.mem_filter] at ht
      simpa using ht.2
  · cases hts

/-- **History is what lies at or before t0**: its stamps are exactly the stamps `≤ 0`, and its
    values are the stored values of those stamps. -/
theorem C12_history_is_up_to_t0 (dts : List Int) (hinc : Inc dts) (ref : Int) (ts : List Int)
    (hts : timesSec dts ref = some ts) (vals : List XVal) (hl : vals.length = ts.length) :
    (history ts vals).1 = ts.filter (fun t => decide (t ≤ 0)) ∧
    (history ts vals).2 = vals.take (history ts vals).1.length ∧
    (∀ t ∈ (history ts vals).1, lookupAt (history ts vals).1 (history ts vals).2 t = lookupAt ts vals t) := by
  unfold timesSec at hts
  split at hts
  · rename_i href
    simp only [Option.some.injEq] at hts
    subst hts
    have hi := inc_map_sub dts hinc ref
    have h0 : (0 : Int) ∈ dts.map (· - ref) := by
      rw [List.mem_map]; exact ⟨ref, href, by omega⟩
    generalize dts.map (· - ref) = ts at hi h0 hl
    have ht := take_bisect_succ ts hi 0 h0
    have hk : histLen ts ≤ ts.length := by
      have := bisect_lt_length ts 0 h0
      unfold histLen; omega
    refine ⟨ht, ?_, ?_⟩
    · simp only [history, List.length_take]
      congr 1
      unfold histLen at hk ⊢
      omega
    · intro t _
      simp only [history]
      -- lookup in a common prefix of both lists
      have key : ∀ (k : Nat) (a : List Int) (b : List XVal) (t : Int), t ∈ a.take k →
          lookupAt (a.take k) (b.take k) t = lookupAt a b t := by
        intro k a
        induction a generalizing k with
        | nil => intro b t h; simp at h
        | cons y l ih =>
          intro b t h
          cases k with
          | zero => simp at h
          | succ k =>
            cases b with
            | nil => simp [lookupAt]
            | cons v vs =>
              simp only [List.take_succ_cons, lookupAt]
              by_cases hy : y = t
              · simp [hy]
              · rw [if_neg hy, if_neg hy]
                simp only [List.take_succ_cons, List.mem_cons] at h
                rcases h with rfl | h
                · exact absurd rfl hy
                · exact ih k vs t h
      exact key _ _ _ _ (by assumption)
  · cases hts

/-- **Bound series named `<var>_Min` / `<var>_Max` bound `<var>` from t0 on**: the bound handed to
    the problem lives on the horizon stamps, and at every horizon stamp it is the stored value of
    that stamp — a missing value meaning "no bound" (∓ the largest float). -/
theorem C12_bound_series_bind_var (dts : List Int) (hinc : Inc dts) (ref : Int) (ts : List Int)
    (hts : timesSec dts ref = some ts) (vals : List XVal) (lower : Bool) (big : Rat) :
    (boundSeries ts vals lower big).1 = horizon ts ∧
    ∀ t ∈ horizon ts,
      lookupAt (boundSeries ts vals lower big).1 (boundSeries ts vals lower big).2 t
        = (lookupAt ts vals t).map
            (fun v => if v = XVal.nan then XVal.fin (if lower then -big else big) else v) := by
  unfold timesSec at hts
  split at hts
  · cases hts
    have hi := inc_map_sub dts hinc ref
    refine ⟨rfl, ?_⟩
    intro t ht
    simp only [boundSeries]
    rw [lookup_map, lookup_drop _ hi vals _ t ht]
  · cases hts

/-! ## set_timeseries -/

/-- **Series set without time stamps start at t0**: a bare array with one value per horizon stamp
    is accepted; its `j`-th value is retrieved at the `j`-th stamp of the horizon, and every stamp
    before t0 holds NaN. -/
theorem C12_set_without_times_starts_at_t0 (dts : List Int) (hinc : Inc dts) (ref : Int)
    (ts : List Int) (hts : timesSec dts ref = some ts) (values : List XVal) (check : Bool)
    (hlen : values.length = (horizon ts).length) :
    ∃ r, setTs ts (.arr values) check = some r ∧ r.length = ts.length ∧
      (∀ j (hj : j < (horizon ts).length), lookupAt ts r ((horizon ts)[j]) = values[j]?) ∧
      (∀ t ∈ ts, t < 0 → lookupAt ts r t = some XVal.nan) := by
  unfold timesSec at hts
  split at hts
  · rename_i href
    simp only [Option.some.injEq] at hts
    subst hts
    have hi := inc_map_sub dts hinc ref
    have h0 : (0 : Int) ∈ dts.map (· - ref) := by
      rw [List.mem_map]; exact ⟨ref, href, by omega⟩
    generalize dts.map (· - ref) = ts at hi h0 hlen
    have hk := bisect_lt_length ts 0 h0
    have hhl : (horizon ts).length = ts.length - bisectLeft ts 0 := by simp [horizon]
    have hfit : bisectLeft ts 0 + values.length ≤ ts.length := by omega
    refine ⟨nans (bisectLeft ts 0) ++ values ++ nans (ts.length - bisectLeft ts 0 - values.length), ?_, ?_, ?_, ?_⟩
    · simp only [setTs]
      have : ((horizon ts).length != values.length) = false := by simp [hlen]
      simp only [this, Bool.and_false, Bool.false_eq_true, if_false, stretch, hfit, if_true]
    · simp only [List.length_append, nans_length]; omega
    · intro j hj
      have hmem : (horizon ts)[j] ∈ ts := List.mem_of_mem_drop (List.getElem_mem hj)
      have hrl : (nans (bisectLeft ts 0) ++ values ++ nans (ts.length - bisectLeft ts 0 - values.length)).length
          = ts.length := by simp only [List.length_append, nans_length]; omega
      rw [lookup_eq_get ts hi _ hrl _ hmem]
      -- position of the j-th horizon stamp
      have hpos : bisectLeft ts ((horizon ts)[j]) = bisectLeft ts 0 + j := by
        have hg := get_bisect ts hi _ hmem
        have hg2 : ts[bisectLeft ts 0 + j]? = some ((horizon ts)[j]) := by
          have : (horizon ts)[j]? = some ((horizon ts)[j]) := List.getElem?_eq_getElem hj
          simp [horizon, List.getElem?_drop] at this ⊢
        have hnd := inc_nodup ts hi
        have hb := bisect_lt_length ts _ hmem
        have hlt : bisectLeft ts 0 + j < ts.length := by omega
        rw [List.getElem?_eq_getElem hb] at hg
        rw [List.getElem?_eq_getElem hlt] at hg2
        have e : ts[bisectLeft ts ((horizon ts)[j])] = ts[bisectLeft ts 0 + j] := by
          rw [Option.some.inj hg, Option.some.inj hg2]
        exact (List.getElem_inj hnd).1 e
      rw [hpos, List.append_assoc, List.getElem?_append_right (by simp [nans_length])]
      simp only [nans_length, Nat.add_sub_cancel_left]
      rw [List.getElem?_append_left (by omega)]
    · intro t ht hneg
      have hrl : (nans (bisectLeft ts 0) ++ values ++ nans (ts.length - bisectLeft ts 0 - values.length)).length
          = ts.length := by simp only [List.length_append, nans_length]; omega
      rw [lookup_eq_get ts hi _ hrl _ ht]
      have hlt : bisectLeft ts t < bisectLeft ts 0 := by
        -- t is among the stamps dropped by the horizon
        by_contra hge
        have hge' : bisectLeft ts 0 ≤ bisectLeft ts t := Nat.le_of_not_lt hge
        have hg := get_bisect ts hi t ht
        have : t ∈ ts.drop (bisectLeft ts 0) := by
          rw [List.mem_iff_getElem?]
          refine ⟨bisectLeft ts t - bisectLeft ts 0, ?_⟩
          rw [List.getElem?_drop]
          rw [show bisectLeft ts 0 + (bisectLeft ts t - bisectLeft ts 0) = bisectLeft ts t by omega]
          exact hg
        rw [drop_bisect ts hi 0, List.mem_filter] at this
        have := this.2
        simp only [decide_eq_true_eq] at this
        omega
      rw [List.append_assoc, List.getElem?_append_left (by simpa [nans_length] using hlt)]
      simp [nans, hlt]
  · cases hts

/-- **Alignment of a series with its own stamps** (repaired code): for any subset of the import
    stamps given in any order without repetition — consecutive or with gaps — the value belonging
    to stamp `s` is retrieved at `s`, and every other import stamp holds NaN. -/
theorem C12_set_alignment (ts : List Int) (hinc : Inc ts) (times : List Int) (values : List XVal)
    (check : Bool) (hne : times ≠ []) (hsub : ∀ t ∈ times, t ∈ ts) (hnd : times.Nodup)
    (hlen : values.length = times.length) :
    ∃ r, setTs ts (.ts times values) check = some r ∧ r.length = ts.length ∧
      (∀ i (hi : i < times.length), lookupAt ts r (times[i]) = values[i]?) ∧
      (∀ t ∈ ts, t ∉ times → lookupAt ts r t = some XVal.nan) := by
  by_cases heq : times = ts
  · subst heq
    refine ⟨values, by simp [setTs, hlen], hlen, ?_, fun t ht hnt => absurd ht hnt⟩
    intro i hi
    rw [lookup_eq_get times hinc values hlen _ (List.getElem_mem hi)]
    have hg := get_bisect times hinc _ (List.getElem_mem hi)
    have hb := bisect_lt_length times _ (List.getElem_mem hi)
    rw [List.getElem?_eq_getElem hb] at hg
    have := (List.getElem_inj hnd).1 (Option.some.inj hg)
    rw [this]
  · have hsubset : (times.all (fun t => ts.contains t)) = true := by
      rw [List.all_eq_true]
      intro t ht
      simpa using hsub t ht
    obtain ⟨t0, rest, rfl⟩ := List.exists_cons_of_ne_nil hne
    have hacc : (nans ts.length).length = ts.length := nans_length _
    refine ⟨scatter ts (t0 :: rest) values (nans ts.length), ?_, ?_, ?_, ?_⟩
    · simp only [setTs]
      rw [if_neg (by omega), if_neg heq]
      simp only [hsubset, Bool.not_true, Bool.and_false, Bool.false_eq_true, if_false, if_true]
    · rw [scatter_length, hacc]
    · intro i hi
      have hmem := hsub _ (List.getElem_mem hi)
      rw [lookup_eq_get ts hinc _ (by rw [scatter_length, hacc]) _ hmem]
      exact scatter_at ts hinc (t0 :: rest) values _ hsub hnd hlen hacc i hi
    · intro t ht hnt
      rw [lookup_eq_get ts hinc _ (by rw [scatter_length, hacc]) _ ht]
      rw [scatter_other ts (t0 :: rest) values _ _ (by
        intro t' ht' e
        have := bisect_inj ts hinc t' t (hsub t' ht') ht e
        subst this
        exact hnt ht')]
      have hb := bisect_lt_length ts t ht
      simp [nans, hb]

/-- finding F15 (code before 614ae95): import stamps -1,0,1,2,3 and a series with the stamps 0 and
    2 — the value for stamp 2 was stored (and retrieved) at stamp 1; the repaired code stores it
    at stamp 2 -/
theorem C12_set_alignment_legacy_witness :
    setTsLegacy [-1, 0, 1, 2, 3] (.ts [0, 2] [XVal.fin 10, XVal.fin 20]) true
      = some [XVal.nan, XVal.fin 10, XVal.fin 20, XVal.nan, XVal.nan] ∧
    setTs [-1, 0, 1, 2, 3] (.ts [0, 2] [XVal.fin 10, XVal.fin 20]) true
      = some [XVal.nan, XVal.fin 10, XVal.nan, XVal.fin 20, XVal.nan] := by
  decide +kernel

/-- inconsistent calls are rejected under `check_consistency`: stamps that are not import stamps,
    or a bare array whose length is not the forecast length -/
theorem C12_set_rejects_inconsistent (ts : List Int) :
    (∀ times values, times ≠ ts → (∃ t ∈ times, t ∉ ts) →
        setTs ts (.ts times values) true = none) ∧
    (∀ values, values.length ≠ (horizon ts).length → setTs ts (.arr values) true = none) := by
  constructor
  · intro times values hne ⟨t, ht, hnt⟩
    have : (times.all (fun t => ts.contains t)) = false := by
      rw [List.all_eq_false]
      exact ⟨t, ht, by simpa using hnt⟩
    simp only [setTs]
    split
    · rfl
    · rw [this]; rfl
  · intro values hl
    simp only [setTs]
    have : ((horizon ts).length != values.length) = true := by
      simp only [bne_iff_ne, ne_eq]
      omega
    simp [this]

/-! ## exports -/

/-- **Exported rows carry the right time stamps**: row `j` of the CSV/PI export is labelled
    `reference + times()[j]`; these labels are exactly the import datetimes from t0 on; and row `j`
    holds the `j`-th result.  The NetCDF writer (all import stamps relative to the first one,
    labelled from the reference) produces the same axis when t0 is the first import stamp. -/
theorem C12_export_times (dts : List Int) (hinc : Inc dts) (ref : Int) (ts : List Int)
    (hts : timesSec dts ref = some ts) (results : List XVal)
    (hres : results.length = (horizon ts).length) :
    exportStamps ref ts = dts.filter (fun d => decide (ref ≤ d)) ∧
    (∀ j (hj : j < (horizon ts).length),
        (exportRows ref ts results)[j]? = some (ref + (horizon ts)[j], results[j]'(by omega))) ∧
    (dts.head? = some ref → ncExportStamps dts ref = exportStamps ref ts) := by
  unfold timesSec at hts
  split at hts
  · rename_i href
    simp only [Option.some.injEq] at hts
    subst hts
    have hi := inc_map_sub dts hinc ref
    have hstamps : exportStamps ref (dts.map (· - ref)) = dts.filter (fun d => decide (ref ≤ d)) := by
      unfold exportStamps horizon
      rw [drop_bisect _ hi 0, List.filter_map, List.map_map]
      have : ((fun x => x + ref) ∘ fun x => x - ref) = id := by
        funext x; simp
      rw [this, List.map_id]
      congr 1
      funext d
      simp only [Function.comp]
      congr 1
      apply propext
      constructor <;> intro h <;> omega
    refine ⟨hstamps, ?_, ?_⟩
    · intro j hj
      unfold exportRows exportStamps
      rw [List.getElem?_zip_eq_some]
      constructor
      · rw [List.getElem?_map, List.getElem?_eq_getElem hj]
        simp only [Option.map_some, Option.some.injEq]
        omega
      · exact List.getElem?_eq_getElem (by omega)
    · intro hhead
      rw [hstamps]
      cases dts with
      | nil => cases hhead
      | cons d0 l =>
        simp only [List.head?_cons, Option.some.injEq] at hhead
        subst hhead
        simp only [ncExportStamps]
        have hall : ∀ d ∈ d0 :: l, d0 ≤ d := by
          intro d hd
          rcases List.mem_cons.1 hd with rfl | hd
          · exact le_refl _
          · exact le_of_lt ((List.pairwise_cons.1 hinc).1 d hd)
        rw [List.filter_eq_self.2 (fun d hd => by simpa using hall d hd)]
        conv_rhs => rw [← List.map_id (d0 :: l)]
        apply List.map_congr_left
        intro d _
        simp
  · cases hts

/-- why `C12_export_times` needs "t0 is the first import stamp" for the NetCDF writer (a
    precondition that `NetCDFMixin.read` establishes itself): with the reference moved to the second
    of three import stamps the NetCDF axis would run one stamp past the end of the import series,
    while CSV/PI export the stamps from t0 -/
theorem C12_export_netcdf_moved_reference_witness :
    ncExportStamps [0, 3600, 7200] 3600 = [3600, 7200, 10800] ∧
    (timesSec [0, 3600, 7200] 3600).map (exportStamps 3600) = some [3600, 7200] := by
  decide +kernel

/-! ## non-vacuity -/

example : Inc [100, 200, 300, 450] ∧ timesSec [100, 200, 300, 450] 200 = some [-100, 0, 100, 250] := by
  decide

example : setTs [-100, 0, 100, 250] (.ts [250, 0] [XVal.fin 7, XVal.nan]) true
    = some [XVal.nan, XVal.nan, XVal.nan, XVal.fin 7] := by decide +kernel

example : setTs [-100, 0, 100, 250] (.arr [XVal.fin 1, XVal.fin 2, XVal.fin 3]) true
    = some [XVal.nan, XVal.fin 1, XVal.fin 2, XVal.fin 3] := by decide +kernel

end RtcVerif.C12
