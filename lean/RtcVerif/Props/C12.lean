import RtcVerif.Model.C12
import RtcVerif.Proofs.C12Lemmas
import RtcVerif.Proofs.C12Io
/-!
# C12 — one time axis relative to t0; exports contain the results at the right times

Property theorems about `Model/C12.lean` (any number of import stamps, any position of t0 among
them, any ensemble size, any values incl. NaN).  Helper lemmas: `Proofs/C12Lemmas.lean`.
`Inc l` = the stamps are strictly increasing (what the mixins validate on reading).
-/
namespace RtcVerif.C12

/-! ## the seconds axis and the data store -/

/-- **A value stored for a datetime is the value retrieved at the corresponding offset, for every
    ensemble member.**  After `io.set_timeseries(v, datetimes, x, m)`: `get_timeseries_sec(v, m)`
    returns `x` on the axis `datetimes - reference`, so the value belonging to datetime `d` is found
    at offset `d - reference`; every other (member, variable) is untouched. -/
theorem C12_get_after_set (dts : List Int) (ref : Int) (ts : List Int)
    (hts : timesSec dts ref = some ts) (st st' : Store) (m v : Nat) (x : List XVal)
    (hset : ioSet dts.length st m v x = some st') :
    ioGet st' m v = some x ∧
    (∀ d, lookupAt ts x (d - ref) = lookupAt dts x d) ∧
    (∀ m' v', (m', v') ≠ (m, v) → ioGet st' m' v' = ioGet st m' v') := by
  unfold timesSec at hts
  split at hts
  · simp only [Option.some.injEq] at hts
    subst hts
    unfold ioSet at hset
    split at hset
    · cases hset
    · simp only [Option.some.injEq] at hset
      subst hset
      have hlen : m < (st ++ List.replicate (m + 1 - st.length) ([] : Series)).length := by
        simp only [List.length_append, List.length_replicate]; omega
      refine ⟨?_, fun d => lookup_map_sub dts x ref d, ?_⟩
      · unfold ioGet
        rw [List.getElem?_modify_eq, List.getElem?_eq_getElem hlen]
        simp [sget_sset_same]
      · intro m' v' hne
        unfold ioGet
        by_cases hm : m' = m
        · subst hm
          have hv : v' ≠ v := fun h => hne (by rw [h])
          rw [List.getElem?_modify_eq, List.getElem?_eq_getElem hlen]
          simp only [Option.map_eq_map, Option.map_some]
          rw [sget_sset_other v v' hv]
          by_cases hlt : m' < st.length
          · rw [List.getElem_append_left hlt, List.getElem?_eq_getElem hlt]
          · rw [List.getElem_append_right (Nat.le_of_not_lt hlt),
              List.getElem?_eq_none (Nat.le_of_not_lt hlt)]
            simp [sget]
        · rw [List.getElem?_modify_ne _ _ (fun h => hm h.symm)]
          by_cases hlt : m' < st.length
          · rw [List.getElem?_append_left hlt]
          · rw [List.getElem?_append_right (Nat.le_of_not_lt hlt),
              List.getElem?_eq_none (Nat.le_of_not_lt hlt)]
            by_cases h2 : m' - st.length < m + 1 - st.length
            · rw [List.getElem?_replicate]
              simp [h2, sget]
            · rw [List.getElem?_eq_none (by simp; omega)]
  · cases hts

/-- the reference datetime must be one of the import stamps; then offset 0 is on the axis -/
theorem C12_reference_on_axis (dts : List Int) (ref : Int) :
    (ref ∉ dts → timesSec dts ref = none) ∧
    (ref ∈ dts → ∃ ts, timesSec dts ref = some ts ∧ (0 : Int) ∈ ts ∧ ts.length = dts.length) := by
  constructor
  · intro h; simp [timesSec, h]
  · intro h
    refine ⟨dts.map (· - ref), by simp [timesSec, h], ?_, by simp⟩
    rw [List.mem_map]
    exact ⟨ref, h, by omega⟩

/-! ## horizon and history -/

/-- **The horizon starts at t0**: `times()` is exactly the stamps at or after the reference
    datetime, and its first entry is 0. -/
theorem C12_horizon_starts_at_t0 (dts : List Int) (hinc : Inc dts) (ref : Int) (ts : List Int)
    (hts : timesSec dts ref = some ts) :
    horizon ts = ts.filter (fun t => decide (0 ≤ t)) ∧ (horizon ts).head? = some 0 ∧
    ∀ t ∈ horizon ts, 0 ≤ t := by
  unfold timesSec at hts
  split at hts
  · rename_i href
    simp only [Option.some.injEq] at hts
    subst hts
    have hi := inc_map_sub dts hinc ref
    have h0 : (0 : Int) ∈ dts.map (· - ref) := by
      rw [List.mem_map]; exact ⟨ref, href, by omega⟩
    have hd := drop_bisect _ hi 0
    refine ⟨hd, ?_, ?_⟩
    · unfold horizon
      have hg := get_bisect _ hi 0 h0
      rw [List.head?_drop]
      exact hg
    · intro t ht
      unfold horizon at ht
      rw [hd, List.mem_filter] at ht
      simpa using ht.2
  · cases hts

/-- **History is what lies at or before t0**: its stamps are exactly the stamps `≤ 0`, and its
    values are the stored values of those stamps. -/
theorem C12_history_is_up_to_t0 (dts : List Int) (hinc : Inc dts) (ref : Int) (ts : List Int)
    (hts : timesSec dts ref = some ts) (vals : List XVal) (hl : vals.length = ts.length) :
    (history ts vals).1 = ts.filter (fun t => decide (t ≤ 0)) ∧
    (history ts vals).2 = vals.take (history ts vals).1.length ∧
    (∀ t ∈ (history ts vals).1, lookupAt (history ts vals).1 (history ts vals).2 t = lookupAt ts vals t) := by
  unfold timesSec at hts
  split at hts
  · rename_i href
    simp only [Option.some.injEq] at hts
    subst hts
    have hi := inc_map_sub dts hinc ref
    have h0 : (0 : Int) ∈ dts.map (· - ref) := by
      rw [List.mem_map]; exact ⟨ref, href, by omega⟩
    generalize dts.map (· - ref) = ts at hi h0 hl
    have ht := take_bisect_succ ts hi 0 h0
    have hk : histLen ts ≤ ts.length := by
      have := bisect_lt_length ts 0 h0
      unfold histLen; omega
    refine ⟨ht, ?_, ?_⟩
    · simp only [history, List.length_take]
      congr 1
      unfold histLen at hk ⊢
      omega
    · intro t _
      simp only [history]
      -- lookup in a common prefix of both lists
      have key : ∀ (k : Nat) (a : List Int) (b : List XVal) (t : Int), t ∈ a.take k →
          lookupAt (a.take k) (b.take k) t = lookupAt a b t := by
        intro k a
        induction a generalizing k with
        | nil => intro b t h; simp at h
        | cons y l ih =>
          intro b t h
          cases k with
          | zero => simp at h
          | succ k =>
            cases b with
            | nil => simp [lookupAt]
            | cons v vs =>
              simp only [List.take_succ_cons, lookupAt]
              by_cases hy : y = t
              · simp [hy]
              · rw [if_neg hy, if_neg hy]
                simp only [List.take_succ_cons, List.mem_cons] at h
                rcases h with rfl | h
                · exact absurd rfl hy
                · exact ih k vs t h
      exact key _ _ _ _ (by assumption)
  · cases hts

/-- **Bound series named `<var>_Min` / `<var>_Max` bound `<var>` from t0 on**: the bound handed to
    the problem lives on the horizon stamps, and at every horizon stamp it is the stored value of
    that stamp — a missing value meaning "no bound" (∓ the largest float). -/
theorem C12_bound_series_bind_var (dts : List Int) (hinc : Inc dts) (ref : Int) (ts : List Int)
    (hts : timesSec dts ref = some ts) (vals : List XVal) (lower : Bool) (big : Rat) :
    (boundSeries ts vals lower big).1 = horizon ts ∧
    ∀ t ∈ horizon ts,
      lookupAt (boundSeries ts vals lower big).1 (boundSeries ts vals lower big).2 t
        = (lookupAt ts vals t).map
            (fun v => if v = XVal.nan then XVal.fin (if lower then -big else big) else v) := by
  unfold timesSec at hts
  split at hts
  · cases hts
    have hi := inc_map_sub dts hinc ref
    refine ⟨rfl, ?_⟩
    intro t ht
    simp only [boundSeries]
    rw [lookup_map, lookup_drop _ hi vals _ t ht]
  · cases hts

/-! ## set_timeseries -/

/-- **Series set without time stamps start at t0**: a bare array with one value per horizon stamp
    is accepted; its `j`-th value is retrieved at the `j`-th stamp of the horizon, and every stamp
    before t0 holds NaN. -/
theorem C12_set_without_times_starts_at_t0 (dts : List Int) (hinc : Inc dts) (ref : Int)
    (ts : List Int) (hts : timesSec dts ref = some ts) (values : List XVal) (check : Bool)
    (hlen : values.length = (horizon ts).length) :
    ∃ r, setTs ts (.arr values) check = some r ∧ r.length = ts.length ∧
      (∀ j (hj : j < (horizon ts).length), lookupAt ts r ((horizon ts)[j]) = values[j]?) ∧
      (∀ t ∈ ts, t < 0 → lookupAt ts r t = some XVal.nan) := by
  unfold timesSec at hts
  split at hts
  · rename_i href
    simp only [Option.some.injEq] at hts
    subst hts
    have hi := inc_map_sub dts hinc ref
    have h0 : (0 : Int) ∈ dts.map (· - ref) := by
      rw [List.mem_map]; exact ⟨ref, href, by omega⟩
    generalize dts.map (· - ref) = ts at hi h0 hlen
    have hk := bisect_lt_length ts 0 h0
    have hhl : (horizon ts).length = ts.length - bisectLeft ts 0 := by simp [horizon]
    have hfit : bisectLeft ts 0 + values.length ≤ ts.length := by omega
    refine ⟨nans (bisectLeft ts 0) ++ values ++ nans (ts.length - bisectLeft ts 0 - values.length), ?_, ?_, ?_, ?_⟩
    · simp only [setTs]
      have : ((horizon ts).length != values.length) = false := by simp [hlen]
      simp only [this, Bool.and_false, Bool.false_eq_true, if_false, stretch, hfit, if_true]
    · simp only [List.length_append, nans_length]; omega
    · intro j hj
      have hmem : (horizon ts)[j] ∈ ts := List.mem_of_mem_drop (List.getElem_mem hj)
      have hrl : (nans (bisectLeft ts 0) ++ values ++ nans (ts.length - bisectLeft ts 0 - values.length)).length
          = ts.length := by simp only [List.length_append, nans_length]; omega
      rw [lookup_eq_get ts hi _ hrl _ hmem]
      -- position of the j-th horizon stamp
      have hpos : bisectLeft ts ((horizon ts)[j]) = bisectLeft ts 0 + j := by
        have hg := get_bisect ts hi _ hmem
        have hg2 : ts[bisectLeft ts 0 + j]? = some ((horizon ts)[j]) := by
          have : (horizon ts)[j]? = some ((horizon ts)[j]) := List.getElem?_eq_getElem hj
          simp [horizon, List.getElem?_drop] at this ⊢
        have hnd := inc_nodup ts hi
        have hb := bisect_lt_length ts _ hmem
        have hlt : bisectLeft ts 0 + j < ts.length := by omega
        rw [List.getElem?_eq_getElem hb] at hg
        rw [List.getElem?_eq_getElem hlt] at hg2
        have e : ts[bisectLeft ts ((horizon ts)[j])] = ts[bisectLeft ts 0 + j] := by
          rw [Option.some.inj hg, Option.some.inj hg2]
        exact (List.getElem_inj hnd).1 e
      rw [hpos, List.append_assoc, List.getElem?_append_right (by simp [nans_length])]
      simp only [nans_length, Nat.add_sub_cancel_left]
      rw [List.getElem?_append_left (by omega)]
    · intro t ht hneg
      have hrl : (nans (bisectLeft ts 0) ++ values ++ nans (ts.length - bisectLeft ts 0 - values.length)).length
          = ts.length := by simp only [List.length_append, nans_length]; omega
      rw [lookup_eq_get ts hi _ hrl _ ht]
      have hlt : bisectLeft ts t < bisectLeft ts 0 := by
        -- t is among the stamps dropped by the horizon
        by_contra hge
        have hge' : bisectLeft ts 0 ≤ bisectLeft ts t := Nat.le_of_not_lt hge
        have hg := get_bisect ts hi t ht
        have : t ∈ ts.drop (bisectLeft ts 0) := by
          rw [List.mem_iff_getElem?]
          refine ⟨bisectLeft ts t - bisectLeft ts 0, ?_⟩
          rw [List.getElem?_drop]
          rw [show bisectLeft ts 0 + (bisectLeft ts t - bisectLeft ts 0) = bisectLeft ts t by omega]
          exact hg
        rw [drop_bisect ts hi 0, List.mem_filter] at this
        have := this.2
        simp only [decide_eq_true_eq] at this
        omega
      rw [List.append_assoc, List.getElem?_append_left (by simpa [nans_length] using hlt)]
      simp [nans, hlt]
  · cases hts

/-- **Alignment of a series with its own stamps** (repaired code): for any subset of the import
    stamps given in any order without repetition — consecutive or with gaps — the value belonging
    to stamp `s` is retrieved at `s`, and every other import stamp holds NaN. -/
theorem C12_set_alignment (ts : List Int) (hinc : Inc ts) (times : List Int) (values : List XVal)
    (check : Bool) (hne : times ≠ []) (hsub : ∀ t ∈ times, t ∈ ts) (hnd : times.Nodup)
    (hlen : values.length = times.length) :
    ∃ r, setTs ts (.ts times values) check = some r ∧ r.length = ts.length ∧
      (∀ i (hi : i < times.length), lookupAt ts r (times[i]) = values[i]?) ∧
      (∀ t ∈ ts, t ∉ times → lookupAt ts r t = some XVal.nan) := by
  by_cases heq : times = ts
  · subst heq
    refine ⟨values, by simp [setTs, hlen], hlen, ?_, fun t ht hnt => absurd ht hnt⟩
    intro i hi
    rw [lookup_eq_get times hinc values hlen _ (List.getElem_mem hi)]
    have hg := get_bisect times hinc _ (List.getElem_mem hi)
    have hb := bisect_lt_length times _ (List.getElem_mem hi)
    rw [List.getElem?_eq_getElem hb] at hg
    have := (List.getElem_inj hnd).1 (Option.some.inj hg)
    rw [this]
  · have hsubset : (times.all (fun t => ts.contains t)) = true := by
      rw [List.all_eq_true]
      intro t ht
      simpa using hsub t ht
    obtain ⟨t0, rest, rfl⟩ := List.exists_cons_of_ne_nil hne
    have hacc : (nans ts.length).length = ts.length := nans_length _
    refine ⟨scatter ts (t0 :: rest) values (nans ts.length), ?_, ?_, ?_, ?_⟩
    · simp only [setTs]
      rw [if_neg (by omega), if_neg heq]
      simp only [hsubset, Bool.not_true, Bool.and_false, Bool.false_eq_true, if_false, if_true]
    · rw [scatter_length, hacc]
    · intro i hi
      have hmem := hsub _ (List.getElem_mem hi)
      rw [lookup_eq_get ts hinc _ (by rw [scatter_length, hacc]) _ hmem]
      exact scatter_at ts hinc (t0 :: rest) values _ hsub hnd hlen hacc i hi
    · intro t ht hnt
      rw [lookup_eq_get ts hinc _ (by rw [scatter_length, hacc]) _ ht]
      rw [scatter_other ts (t0 :: rest) values _ _ (by
        intro t' ht' e
        have := bisect_inj ts hinc t' t (hsub t' ht') ht e
        subst this
        exact hnt ht')]
      have hb := bisect_lt_length ts t ht
      simp [nans, hb]

/-- finding F15 (code before 614ae95): import stamps -1,0,1,2,3 and a series with the stamps 0 and
    2 — the value for stamp 2 was stored (and retrieved) at stamp 1; the repaired code stores it
    at stamp 2 -/
theorem C12_set_alignment_legacy_witness :
    setTsLegacy [-1, 0, 1, 2, 3] (.ts [0, 2] [XVal.fin 10, XVal.fin 20]) true
      = some [XVal.nan, XVal.fin 10, XVal.fin 20, XVal.nan, XVal.nan] ∧
    setTs [-1, 0, 1, 2, 3] (.ts [0, 2] [XVal.fin 10, XVal.fin 20]) true
      = some [XVal.nan, XVal.fin 10, XVal.nan, XVal.fin 20, XVal.nan] := by
  decide +kernel

/-- inconsistent calls are rejected under `check_consistency`: stamps that are not import stamps,
    or a bare array whose length is not the forecast length -/
theorem C12_set_rejects_inconsistent (ts : List Int) :
    (∀ times values, times ≠ ts → (∃ t ∈ times, t ∉ ts) →
        setTs ts (.ts times values) true = none) ∧
    (∀ values, values.length ≠ (horizon ts).length → setTs ts (.arr values) true = none) := by
  constructor
  · intro times values hne ⟨t, ht, hnt⟩
    have : (times.all (fun t => ts.contains t)) = false := by
      rw [List.all_eq_false]
      exact ⟨t, ht, by simpa using hnt⟩
    simp only [setTs]
    split
    · rfl
    · rw [this]; rfl
  · intro values hl
    simp only [setTs]
    have : ((horizon ts).length != values.length) = true := by
      simp only [bne_iff_ne, ne_eq]
      omega
    simp [this]

/-! ## exports -/

/-- **Exported rows carry the right time stamps**: row `j` of the CSV/PI export is labelled
    `reference + times()[j]`; these labels are exactly the import datetimes from t0 on; and row `j`
    holds the `j`-th result.  The NetCDF writer (all import stamps relative to the first one,
    labelled from the reference) produces the same axis when t0 is the first import stamp. -/
theorem C12_export_times (dts : List Int) (hinc : Inc dts) (ref : Int) (ts : List Int)
    (hts : timesSec dts ref = some ts) (results : List XVal)
    (hres : results.length = (horizon ts).length) :
    exportStamps ref ts = dts.filter (fun d => decide (ref ≤ d)) ∧
    (∀ j (hj : j < (horizon ts).length),
        (exportRows ref ts results)[j]? = some (ref + (horizon ts)[j], results[j]'(by omega))) ∧
    (dts.head? = some ref → ncExportStamps dts ref = exportStamps ref ts) := by
  unfold timesSec at hts
  split at hts
  · rename_i href
    simp only [Option.some.injEq] at hts
    subst hts
    have hi := inc_map_sub dts hinc ref
    have hstamps : exportStamps ref (dts.map (· - ref)) = dts.filter (fun d => decide (ref ≤ d)) := by
      unfold exportStamps horizon
      rw [drop_bisect _ hi 0, List.filter_map, List.map_map]
      have : ((fun x => x + ref) ∘ fun x => x - ref) = id := by
        funext x; simp
      rw [this, List.map_id]
      congr 1
      funext d
      simp only [Function.comp]
      congr 1
      apply propext
      constructor <;> intro h <;> omega
    refine ⟨hstamps, ?_, ?_⟩
    · intro j hj
      unfold exportRows exportStamps
      rw [List.getElem?_zip_eq_some]
      constructor
      · rw [List.getElem?_map, List.getElem?_eq_getElem hj]
        simp only [Option.map_some, Option.some.injEq]
        omega
      · exact List.getElem?_eq_getElem (by omega)
    · intro hhead
      rw [hstamps]
      cases dts with
      | nil => cases hhead
      | cons d0 l =>
        simp only [List.head?_cons, Option.some.injEq] at hhead
        subst hhead
        simp only [ncExportStamps]
        have hall : ∀ d ∈ d0 :: l, d0 ≤ d := by
          intro d hd
          rcases List.mem_cons.1 hd with rfl | hd
          · exact le_refl _
          · exact le_of_lt ((List.pairwise_cons.1 hinc).1 d hd)
        rw [List.filter_eq_self.2 (fun d hd => by simpa using hall d hd)]
        conv_rhs => rw [← List.map_id (d0 :: l)]
        apply List.map_congr_left
        intro d _
        simp
  · cases hts

/-- why `C12_export_times` needs "t0 is the first import stamp" for the NetCDF writer (a
    precondition that `NetCDFMixin.read` establishes itself): with the reference moved to the second
    of three import stamps the NetCDF axis would run one stamp past the end of the import series,
    while CSV/PI export the stamps from t0 -/
theorem C12_export_netcdf_moved_reference_witness :
    ncExportStamps [0, 3600, 7200] 3600 = [3600, 7200, 10800] ∧
    (timesSec [0, 3600, 7200] 3600).map (exportStamps 3600) = some [3600, 7200] := by
  decide +kernel

/-! ## what each accessor hands out (statement-level model `Model/C12Io.lean`, tied to the source by
`Gen/IoSlices.lean`) -/

/-- **`bounds()[v]` is built from the series `v_Min` / `v_Max` of member 0, from t0 on.**  With neither
    series the parent's entry is kept; otherwise the entry is the pair `(m, M)`: a side is `None` exactly
    when its series is absent, and a present side lives on the horizon stamps and holds at every
    horizon stamp the stored value of that stamp (missing ↦ ∓big).  The stored series are not changed. -/
theorem C12_bounds_entry_binds_var {β : Type} (dts : List Int) (hinc : Inc dts) (ref : Int) (ts : List Int)
    (hts : timesSec dts ref = some ts) (get : Getter) (big : Rat) (parent : Option β) :
    (get 0 Key.min = none → get 0 Key.max = none →
        boundsEntry ts get big parent = Entry.inherited parent) ∧
    ((get 0 Key.min ≠ none ∨ get 0 Key.max ≠ none) →
        ∃ m M, boundsEntry ts get big parent = Entry.io (m, M) ∧
          (m = none ↔ get 0 Key.min = none) ∧ (M = none ↔ get 0 Key.max = none) ∧
          (∀ vals, get 0 Key.min = some vals → ∃ s, m = some s ∧ s.1 = horizon ts ∧
              ∀ t ∈ horizon ts, lookupAt s.1 s.2 t = (lookupAt ts vals t).map (replNan (-big))) ∧
          (∀ vals, get 0 Key.max = some vals → ∃ s, M = some s ∧ s.1 = horizon ts ∧
              ∀ t ∈ horizon ts, lookupAt s.1 s.2 t = (lookupAt ts vals t).map (replNan big))) ∧
    (∀ vals lower, boundsStoreAfter ts vals lower big = vals) := by
  refine ⟨?_, ?_, fun _ _ => rfl⟩
  · intro h1 h2
    simp [boundsEntry, boundSide, h1, h2]
  · intro hor
    refine ⟨boundSide ts get true big, boundSide ts get false big, ?_, ?_, ?_, ?_, ?_⟩
    · have : ((boundSide ts get true big).isSome || (boundSide ts get false big).isSome) = true := by
        simp only [boundSide, Option.isSome_map, if_true, Bool.false_eq_true, if_false, Bool.or_eq_true]
        rcases hor with h | h
        · left; exact Option.isSome_iff_ne_none.2 h
        · right; exact Option.isSome_iff_ne_none.2 h
      simp only [boundsEntry, this, if_true]
    · simp [boundSide]
    · simp [boundSide]
    · intro vals hv
      have hb := C12_bound_series_bind_var dts hinc ref ts hts vals true big
      refine ⟨boundSeries ts vals true big, by simp [boundSide, hv], hb.1, ?_⟩
      intro t ht
      rw [hb.2 t ht]
      rfl
    · intro vals hv
      have hb := C12_bound_series_bind_var dts hinc ref ts hts vals false big
      refine ⟨boundSeries ts vals false big, by simp [boundSide, hv], hb.1, ?_⟩
      intro t ht
      rw [hb.2 t ht]
      rfl

/-- **`history(m)[v]` is the stored series of member `m` up to and including t0** (absent series: the
    parent's entry is kept). -/
theorem C12_history_entry {β : Type} (dts : List Int) (hinc : Inc dts) (ref : Int) (ts : List Int)
    (hts : timesSec dts ref = some ts) (get : Getter) (m : Nat) (parent : Option β) :
    (get m Key.var = none → historyEntry ts get m parent = Entry.inherited parent) ∧
    (∀ vals, get m Key.var = some vals → vals.length = ts.length →
      ∃ h : Ser, historyEntry ts get m parent = Entry.io h ∧
        h.1 = ts.filter (fun t => decide (t ≤ 0)) ∧ h.2 = vals.take h.1.length ∧
        ∀ t ∈ h.1, lookupAt h.1 h.2 t = lookupAt ts vals t) := by
  constructor
  · intro h; simp [historyEntry, h]
  · intro vals hv hl
    have hh := C12_history_is_up_to_t0 dts hinc ref ts hts vals hl
    exact ⟨history ts vals, by simp [historyEntry, hv], hh.1, hh.2.1, hh.2.2⟩

/-- **`seed(m)[v]` is the whole stored series of member `m` on all import stamps** (also those before
    t0), a missing value seeding 0. -/
theorem C12_seed_entry_whole_axis {β : Type} (ts : List Int) (get : Getter) (m : Nat) (parent : Option β) :
    (get m Key.var = none → seedEntry ts get m parent = Entry.inherited parent) ∧
    (∀ vals, get m Key.var = some vals →
      ∃ s : Ser, seedEntry ts get m parent = Entry.io s ∧ s.1 = ts ∧ s.2.length = vals.length ∧
        ∀ t, lookupAt s.1 s.2 t = (lookupAt ts vals t).map (replNan 0)) := by
  constructor
  · intro h; simp [seedEntry, h]
  · intro vals hv
    exact ⟨(ts, vals.map (replNan 0)), by simp [seedEntry, hv], rfl, by simp,
      fun t => lookup_map ts vals (replNan 0) t⟩

/-- **`constant_inputs(m)[v]` is the whole stored series of member `m`, unchanged, on all import
    stamps; it is rejected exactly when a value at or after t0 is missing** (values before t0 may be). -/
theorem C12_constant_input_entry {β : Type} (dts : List Int) (hinc : Inc dts) (ref : Int) (ts : List Int)
    (hts : timesSec dts ref = some ts) (get : Getter) (m : Nat) (parent : Option β) :
    (get m Key.var = none → constInputEntry ts get m parent = some (Entry.inherited parent)) ∧
    (∀ vals, get m Key.var = some vals → vals.length = ts.length →
      ((∃ t ∈ horizon ts, lookupAt ts vals t = some XVal.nan) → constInputEntry ts get m parent = none) ∧
      ((¬ ∃ t ∈ horizon ts, lookupAt ts vals t = some XVal.nan) →
          constInputEntry ts get m parent = some (Entry.io (ts, vals)))) := by
  unfold timesSec at hts
  split at hts
  · cases hts
    have hi := inc_map_sub dts hinc ref
    generalize dts.map (· - ref) = ts at hi
    constructor
    · intro h; simp [constInputEntry, h]
    · intro vals hv hl
      have hmask := maskSel_ge_eq_drop ts hi vals hl
      have hdl : (vals.drop (bisectLeft ts 0)).length = (ts.drop (bisectLeft ts 0)).length := by
        simp [hl]
      have hany := any_nan_iff_lookup (ts.drop (bisectLeft ts 0)) (inc_drop ts hi _) _ hdl
      have hiff : ((vals.drop (bisectLeft ts 0)).any (fun v => decide (v = XVal.nan))) = true ↔
          ∃ t ∈ horizon ts, lookupAt ts vals t = some XVal.nan := by
        rw [hany]
        constructor
        · rintro ⟨t, ht, h⟩
          exact ⟨t, ht, by rw [← lookup_drop ts hi vals _ t ht]; exact h⟩
        · rintro ⟨t, ht, h⟩
          exact ⟨t, ht, by rw [lookup_drop ts hi vals _ t ht]; exact h⟩
      constructor
      · intro hex
        simp only [constInputEntry, hv, hmask]
        rw [if_pos (hiff.2 hex)]
      · intro hnex
        simp only [constInputEntry, hv, hmask]
        rw [if_neg (fun h => hnex (hiff.1 h))]
  · cases hts

/-- **`parameters(m)`: a parameter of the data store (member `m`) overrides the parent's value; every
    other parameter keeps the parent's value.** -/
theorem C12_parameters_io_overrides {α : Type} (parent io : List (Nat × α)) (k : Nat) :
    aget k (parametersMerge parent io) = (alast k io).orElse (fun _ => aget k parent) :=
  aget_parametersMerge parent io k

/-- the statement-level reading of `DataStore.set_timeseries` / `get_timeseries_sec` (what the source
    is translated to) is the store model of `C12_get_after_set` -/
theorem C12_datastore_code_is_model (n : Nat) (st : Store) (m v : Nat) (x : List XVal) :
    ioSetRef n st m v x = ioSet n st m v x ∧ ioGetRef st m v = ioGet st m v :=
  ⟨ioSetRef_eq n st m v x, ioGetRef_eq st m v⟩

/-! ## simulation: what is fed before each step, which stamp a recorded row belongs to -/

/-- **Every recorded output row belongs to the stamp listed for it, and the inputs set before the solve
    that produced it are those stored for that very stamp.**  For `initialize()` followed by any
    sequence of `update(dt)` calls (default or explicit steps): the listed stamps are the model times at
    which the rows were read; there is one feed per row; when the stamp of row `j` is an import stamp,
    the import row fed before solve `j` is the row of that stamp; with explicit non-negative steps the
    stamps are the running sums of the steps from 0. -/
theorem C12_sim_feed_record (ts : List Int) (hinc : Inc ts) (dts : List Int) (s : SimSt)
    (hrun : simRun ts dts = some s) :
    s.stamps = s.recorded ∧ s.fed.length = s.stamps.length ∧ s.stamps.length = dts.length + 1 ∧
    (∀ (j : Nat) (t : Int), s.stamps[j]? = some t → t ∈ ts →
        ∃ i, (s.fed[j]?).map Prod.fst = some i ∧ ts[i]? = some t) ∧
    ((∀ d ∈ dts, 0 ≤ d) → s.stamps = 0 :: runStamps 0 dts) := by
  unfold simRun at hrun
  cases hinit : simInit ts with
  | none => rw [hinit] at hrun; cases hrun
  | some s0 =>
    rw [hinit] at hrun
    simp only [Option.map_some, Option.some.injEq] at hrun
    subst hrun
    have inv := simInv_foldl ts dts s0 (simInv_init ts s0 hinit)
    have hs0 : s0.stamps = [0] ∧ s0.time = 0 := by
      unfold simInit at hinit
      split at hinit
      · cases hinit; exact ⟨rfl, rfl⟩
      · cases hinit
    have hlen : ∀ (l : List Int) (s : SimSt),
        (l.foldl (simUpdate ts) s).stamps.length = s.stamps.length + l.length := by
      intro l
      induction l with
      | nil => intro s; rfl
      | cons d l ih => intro s; simp only [List.foldl_cons, ih, simUpdate, List.length_append,
          List.length_cons, List.length_nil]; omega
    refine ⟨inv.rec_eq, inv.len, by rw [hlen, hs0.1]; simp; omega, ?_, ?_⟩
    · intro j t hj ht
      have hf := congrArg (fun l => l[j]?) inv.fed_eq
      simp only [List.getElem?_map, hj, Option.map_some] at hf
      exact ⟨bisectLeft ts t, hf, get_bisect ts hinc t ht⟩
    · intro hpos
      rw [foldl_stamps ts dts s0 hpos, hs0.1, hs0.2]
      rfl

/-- with the default step on an equidistant axis the recorded stamps are `0, dt, 2 dt, …` -/
theorem C12_sim_default_steps (ts : List Int) (k : Nat) (s : SimSt)
    (hrun : simRun ts (List.replicate k (-1)) = some s) : s.stamps = simTimes s.dtImport k := by
  unfold simRun at hrun
  cases hinit : simInit ts with
  | none => rw [hinit] at hrun; cases hrun
  | some s0 =>
    rw [hinit] at hrun
    simp only [Option.map_some, Option.some.injEq] at hrun
    subst hrun
    have hs0 : s0.stamps = [0] ∧ s0.time = 0 := by
      unfold simInit at hinit
      split at hinit
      · cases hinit; exact ⟨rfl, rfl⟩
      · cases hinit
    have key : ∀ (k : Nat) (s : SimSt), s.stamps = simTimes s.dtImport k →
        s.time = (k : Int) * s.dtImport →
        (simUpdate ts s (-1)).stamps = simTimes (simUpdate ts s (-1)).dtImport (k + 1) ∧
        (simUpdate ts s (-1)).time = ((k + 1 : Nat) : Int) * (simUpdate ts s (-1)).dtImport := by
      intro k s h1 h2
      have hneg : ((-1 : Int) < 0) := by decide
      simp only [simUpdate, hneg, if_true, h1, h2]
      constructor
      · simp only [simTimes, List.range_succ, List.map_append, List.map_cons, List.map_nil]
        congr 2
        push_cast
        ring
      · push_cast
        ring
    have main : ∀ (n k : Nat) (s : SimSt), s.stamps = simTimes s.dtImport k →
        s.time = (k : Int) * s.dtImport →
        ((List.replicate n (-1)).foldl (simUpdate ts) s).stamps
          = simTimes ((List.replicate n (-1)).foldl (simUpdate ts) s).dtImport (k + n) := by
      intro n
      induction n with
      | zero => intro k s h1 _; simpa using h1
      | succ n ih =>
        intro k s h1 h2
        simp only [List.replicate_succ, List.foldl_cons]
        have := key k s h1 h2
        have h := ih (k + 1) _ this.1 this.2
        rw [h]
        congr 1
        omega
    have := main k 0 s0 (by rw [hs0.1]; simp [simTimes]) (by rw [hs0.2]; simp)
    simpa using this

/-! ## binary PI export -/

/-- **A binary PI export of an ensemble holds, for every (member, variable), that series' own values.**
    With the headers of a new file listed member by member (what `pi.Timeseries.write` does, see
    `Gen/PiBinOrder.lean`) the float32 blocks, appended member by member in document order, come in
    exactly the header order; reading the file as the format prescribes (`j`-th header ↔ `j`-th block)
    returns for every listed series the values stored for that member and variable. -/
theorem C12_binary_export_decodes {α : Type} (vars : Nat → List Nat) (E : Nat) (val : SKey → α)
    (m v : Nat) (hm : m < E) (hv : v ∈ vars m) :
    recordOrder (headerOrder vars E) E = headerOrder vars E ∧
    binDecode (headerOrder vars E) (binBlocks (headerOrder vars E) E val) (m, v) = some (val (m, v)) := by
  refine ⟨recordOrder_headerOrder vars E, ?_⟩
  unfold binBlocks
  rw [recordOrder_headerOrder]
  apply binDecode_map
  simp only [headerOrder, List.mem_flatMap, List.mem_range, List.mem_map]
  exact ⟨m, hm, v, hv, rfl⟩

/-- why the header order matters (seeded change c12i): headers grouped by variable with the blocks
    still appended member by member — series (member 1, variable 0) is read back with the values of
    (member 0, variable 1) -/
theorem C12_binary_export_grouped_by_variable_witness :
    recordOrder [(0, 0), (1, 0), (0, 1), (1, 1)] 2 = [(0, 0), (0, 1), (1, 0), (1, 1)] ∧
    binDecode [(0, 0), (1, 0), (0, 1), (1, 1)] (binBlocks [(0, 0), (1, 0), (0, 1), (1, 1)] 2 id) (1, 0)
      = some ((0, 1) : SKey) := by
  decide

/-! ## non-vacuity -/

example : Inc [100, 200, 300, 450] ∧ timesSec [100, 200, 300, 450] 200 = some [-100, 0, 100, 250] := by
  decide

example : setTs [-100, 0, 100, 250] (.ts [250, 0] [XVal.fin 7, XVal.nan]) true
    = some [XVal.nan, XVal.nan, XVal.nan, XVal.fin 7] := by decide +kernel

example : setTs [-100, 0, 100, 250] (.arr [XVal.fin 1, XVal.fin 2, XVal.fin 3]) true
    = some [XVal.nan, XVal.fin 1, XVal.fin 2, XVal.fin 3] := by decide +kernel

example : (boundsEntry [-100, 0, 100, 250]
      (fun m k => if m = 0 ∧ k = Key.max then some [XVal.fin 1, XVal.fin 2, XVal.nan, XVal.fin 4] else none)
      (7 : Rat) (some (0 : Nat)))
    = Entry.io (none, some ([0, 100, 250], [XVal.fin 2, XVal.fin 7, XVal.fin 4])) := by decide +kernel

example : constInputEntry (β := Nat) [-100, 0, 100] (fun _ _ => some [XVal.nan, XVal.fin 1, XVal.fin 2]) 0 none
    = some (Entry.io ([-100, 0, 100], [XVal.nan, XVal.fin 1, XVal.fin 2])) := by decide +kernel

example : constInputEntry (β := Nat) [-100, 0, 100] (fun _ _ => some [XVal.fin 0, XVal.fin 1, XVal.nan]) 0 none
    = none := by decide +kernel

example : parametersMerge [(1, (5 : Int)), (2, 6)] [(2, 9), (3, 4)] = [(1, 5), (2, 9), (3, 4)] := by decide

example : (simRun [-3600, 0, 3600, 7200, 10800] [-1, 7200]).map (fun s => (s.stamps, s.fed, s.recorded))
    = some ([0, 3600, 10800], [(1, 0), (2, 0), (4, 3600)], [0, 3600, 10800]) := by decide +kernel

example : ioSetRef 2 [[]] 2 0 [XVal.fin 1, XVal.nan] = some [[], [], [(0, [XVal.fin 1, XVal.nan])]] := by
  decide +kernel

example : headerOrder (fun m => if m = 0 then [2, 5] else [2, 5, 7]) 2 = [(0, 2), (0, 5), (1, 2), (1, 5), (1, 7)] := by
  decide

end RtcVerif.C12
