import RtcVerif.Model.C13
import RtcVerif.Proofs.C13Lemmas
import RtcVerif.Proofs.C13Spec
import RtcVerif.Proofs.C13Alias
import RtcVerif.Proofs.C13Sim
import RtcVerif.Proofs.C13IO
/-!
# C13 — aliases are transparent: any alias name addresses the same quantity, signed

All theorems are for an arbitrary alias relation `r : VName → VName × Sign`
(`AliasRelation.canonical_signed`), an arbitrary dictionary state, and an arbitrary value type `V`
whose unary minus is an involution (`LawfulNegVal`; numbers incl. nan/±inf, `Timeseries`, bound
tuples — swapped and negated —, lists are instances).  Where the law
`r (r n).1 = ((r n).1, +)` is needed it is an explicit hypothesis (`Rel.Idem`).
-/
namespace RtcVerif.C13
open PyDict

variable {V : Type} [NegVal V]

/-! ## get after set through any alias pair -/

/-- `__setitem__` rejects exactly the tuples that are not pairs, whatever the key. -/
theorem C13_set_rejects_iff (r : Rel) (a : ADict V) (k : VName) (v : V) :
    (a.set r k v = .error .assertion ↔ ok v = false) ∧
    (ok v = true → ∃ a', a.set r k v = .ok a' ∧ a'.signedValues = a.signedValues) := by
  unfold ADict.set
  cases h : ok v <;> simp

/-- **Get after set through any alias pair**: storing `v` through `k` and reading through any
    `k'` with the same canonical name yields `v` with the product of the two signs applied
    (a pair comes back swapped and negated under a relative minus); reading through a name of a
    different quantity is unaffected. -/
theorem C13_get_set [LawfulNegVal V] (r : Rel) (a a' : ADict V) (k : VName) (v : V)
    (hset : a.set r k v = .ok a') :
    (∀ k', (r k').1 = (r k).1 →
        a'.get r k' = .ok (signed ((csigned r a.signedValues k).2 * (csigned r a.signedValues k').2) v)) ∧
    (∀ k', (r k').1 ≠ (r k).1 → a'.get r k' = a.get r k') := by
  unfold ADict.set at hset
  split at hset
  · injection hset with hset
    subst hset
    constructor
    · intro k' hc
      have h1 : (csigned r a.signedValues k').1 = (csigned r a.signedValues k).1 := by
        unfold csigned; split <;> exact hc
      simp only [ADict.get, h1, get_set_same, signed_signed, Sign.hmul_eq]
    · intro k' hc
      have h1 : (csigned r a.signedValues k).1 ≠ (csigned r a.signedValues k').1 := by
        unfold csigned; split <;> exact fun e => hc e.symm
      simp only [ADict.get, get_set_other _ _ _ _ h1]
  · cases hset

/-- in a signed dictionary the sign applied is the product of the two alias signs -/
theorem C13_get_set_signed [LawfulNegVal V] (r : Rel) (a a' : ADict V) (k k' : VName) (v : V)
    (hs : a.signedValues = true) (hset : a.set r k v = .ok a') (hc : (r k').1 = (r k).1) :
    a'.get r k' = .ok (signed ((r k).2 * (r k').2) v) := by
  have := (C13_get_set r a a' k v hset).1 k' hc
  simpa [csigned, hs] using this

/-- **Unsigned dictionaries** (nominals, variable types) return exactly what was stored, through
    any alias, negated or not — for *every* value type (no minus is ever applied). -/
theorem C13_unsigned_positive (r : Rel) (a a' : ADict V) (k k' : VName) (v : V)
    (hu : a.signedValues = false) (hset : a.set r k v = .ok a') (hc : (r k').1 = (r k).1) :
    a'.get r k' = .ok v := by
  unfold ADict.set at hset
  split at hset
  · injection hset with hset
    subst hset
    simp [ADict.get, csigned, hu, hc, get_set_same]
  · cases hset


/-- **Unsigned dictionaries ignore every sign, for every operation sequence**: a run on
    dictionaries with `signed_values = False` is the run under the relation with all signs set
    to `+` — whatever the value type (nominals, Python types, anything without a minus). -/
theorem C13_unsigned_run (r : Rel) (ops : List (Op V)) :
    ∀ s : St V, s.cur.signedValues = false → s.alt.signedValues = false →
      run r.unsign s ops = run r s ops := by
  induction ops with
  | nil => intro s _ _; rfl
  | cons op ops ih =>
    intro s hc ha
    obtain ⟨f1, f2⟩ := step_flags r s op false hc ha
    simp only [run, step_unsign r s op hc, ih _ f1 f2]

/-! ## every operation sequence behaves as the abstract map canonical ↦ value -/

/-- **Refinement**: for every relation, every operation sequence (`set, get, del, contains, len,
    iter/keys, values, items, update, setdefault, get(default), copy`) and every start state with
    distinct keys, the implementation (association list keyed through `canonical_signed`)
    produces exactly the outputs of the abstract map `canonical name ↦ value` (`specRun`:
    operations stated on a function `VName → Option V` with an insertion order), ends in the
    state that abstracts to the abstract end state, and keeps its keys distinct. -/
theorem C13_ops_refine_map (r : Rel) (ops : List (Op V)) :
    ∀ s : St V, WF s.cur → WF s.alt →
      specRun r (absS s) ops = (absS (run r s ops).1, (run r s ops).2)
        ∧ WF (run r s ops).1.cur ∧ WF (run r s ops).1.alt := by
  induction ops with
  | nil => intro s hc ha; exact ⟨rfl, hc, ha⟩
  | cons op ops ih =>
    intro s hc ha
    obtain ⟨h1, h2, h3⟩ := step_refines r s op hc ha
    obtain ⟨i1, i2, i3⟩ := ih (step r s op).1 h2 h3
    simp only [specRun, run, h1, i1]
    exact ⟨trivial, i2, i3⟩

/-- the same, started from empty dictionaries (what the constructor builds) -/
theorem C13_ops_refine_map_from_empty (r : Rel) (sv : Bool) (ops : List (Op V)) :
    specRun r ⟨⟨sv, fun _ => none, []⟩, ⟨sv, fun _ => none, []⟩⟩ ops
      = (absS (run r ⟨ADict.empty sv, ADict.empty sv⟩ ops).1,
         (run r ⟨ADict.empty sv, ADict.empty sv⟩ ops).2) := by
  have h := (C13_ops_refine_map r ops (⟨ADict.empty sv, ADict.empty sv⟩ : St V)
    List.nodup_nil List.nodup_nil).1
  exact h

/-! ## any alias name addresses the same quantity -/

/-- **Alias invariance of whole runs**: if every operation of `ops'` is the corresponding
    operation of `ops` addressed through other names of the same quantities (value arguments
    replaced by their signed images), then both runs end in the *same* dictionaries and every
    output of the second run is the output of the first seen with the relative sign (a get
    through a negated alias returns the negated value / the swapped, negated pair; Booleans,
    lengths, key lists, errors are identical). -/
theorem C13_alias_invariant [LawfulNegVal V] (r : Rel) (sv : Bool)
    {ops ops' : List (Op V)} {ss : List Sign} (h : RunAlias r sv ops ops' ss) :
    ∀ s : St V, s.cur.signedValues = sv → s.alt.signedValues = sv →
      run r s ops' = ((run r s ops).1, List.zipWith Out.sgn ss (run r s ops).2) := by
  induction h with
  | nil => intro s _ _; rfl
  | @cons op op' sg ops ops' ss hop _ ih =>
    intro s hc ha
    subst hc
    obtain ⟨f1, f2⟩ := step_flags r s op s.cur.signedValues rfl ha
    simp only [run, step_alias r s hop, ih _ f1 f2, List.zipWith_cons_cons]

/-- names handed out by `keys()/iter/items()` are canonical, and reading through them returns the
    stored value itself: for every dictionary reachable from the empty one,
    `for k, v in d.items(): d[k] == v` (uses the law `canon (canon n).1 = ((canon n).1, +)`). -/
theorem C13_items_readable (r : Rel) (hr : r.Idem) (sv : Bool) (ops : List (Op V))
    (c : VName) (v : V)
    (hm : (c, v) ∈ (run r ⟨ADict.empty sv, ADict.empty sv⟩ ops).1.cur.items) :
    (run r ⟨ADict.empty sv, ADict.empty sv⟩ ops).1.cur.get r c = .ok v
      ∧ r c = (c, Sign.pos) := by
  have hwf := (C13_ops_refine_map r ops (⟨ADict.empty sv, ADict.empty sv⟩ : St V)
    List.nodup_nil List.nodup_nil).2.1
  have hcan := (run_invariant r (fun s => Canon r s.cur ∧ Canon r s.alt)
    (fun s op h => step_canon r hr s op h) ops ⟨ADict.empty sv, ADict.empty sv⟩
    ⟨fun c hc => absurd hc (by simp [ADict.empty, PyDict.keys]),
     fun c hc => absurd hc (by simp [ADict.empty, PyDict.keys])⟩).1
  generalize (run r ⟨ADict.empty sv, ADict.empty sv⟩ ops).1.cur = a at *
  have hk : c ∈ keys a.d := List.mem_map.2 ⟨(c, v), hm, rfl⟩
  have hcc := hcan c hk
  refine ⟨?_, hcc⟩
  have hcs : csigned r a.signedValues c = (c, Sign.pos) := by
    unfold csigned; split
    · exact hcc
    · rw [hcc]
  simp [ADict.get, hcs, PyDict.get_of_mem a.d hwf c v hm]

/-! ## simulation `get_var` / `set_var` -/

/-- **Simulation**: after `set_var(b, v)`, `get_var(a)` through any name `a` of the same quantity
    returns `sign a · sign b · v` in physical units, for every (non-zero) nominal and whether or
    not the entry is a scaled state — provided the nominal dictionary is unsigned (as repaired in
    7f4289d). -/
theorem C13_sim_get_set (r : Rel) (s s' : Sim) (a b : VName) (v : Rat)
    (hu : s.nominals.signedValues = false) (hc : (r a).1 = (r b).1)
    (hn : s.nominal r b ≠ 0) (hset : s.setVar r b v = some s') :
    s'.getVar r a = some (sgnMul ((r a).2 * (r b).2) v) := by
  unfold Sim.setVar at hset
  cases hib : s.index r b with
  | none => rw [hib] at hset; cases hset
  | some p =>
    obtain ⟨i, sb⟩ := p
    rw [hib] at hset
    simp only at hset
    split at hset
    · rename_i hlt
      injection hset with hset
      obtain ⟨hia, hsb⟩ := Sim.index_alias r s a b i sb hc hib
      have hnom : s.nominal r a = s.nominal r b := Sim.nominal_alias r s a b hu hc
      have hia' : s'.index r a = some (i, (r a).2) := by rw [← hset]; exact hia
      have hnom' : s'.nominal r a = s.nominal r b := by rw [← hset]; exact hnom
      have hn' : s'.nStates = s.nStates := by rw [← hset]
      unfold Sim.getVar
      rw [hia']
      simp only
      have hv : s'.vec[i]? = some (if i ≤ s.nStates then sgnMul sb v / s.nominal r b else sgnMul sb v) := by
        rw [← hset]; simp [List.getElem?_set_self hlt]
      rw [hv, hn', hnom', hsb]
      simp only [Option.some.injEq, Sign.hmul_eq]
      split
      · rw [← sgnMul_div, sgnMul_mul, sgnMul_mul_right]
        congr 1
        field_simp
      · rw [sgnMul_mul]
    · cases hset

/-- `set_var` on one quantity leaves every variable stored at another position unchanged -/
theorem C13_sim_set_other (r : Rel) (s s' : Sim) (a b : VName) (v : Rat) (i j : Nat) (sa sb : Sign)
    (hia : s.index r a = some (j, sa)) (hib : s.index r b = some (i, sb)) (hij : i ≠ j)
    (hset : s.setVar r b v = some s') : s'.getVar r a = s.getVar r a := by
  unfold Sim.setVar at hset
  rw [hib] at hset
  simp only at hset
  split at hset
  · injection hset with hset
    have hia' : s'.index r a = some (j, sa) := by rw [← hset]; exact hia
    unfold Sim.getVar
    rw [hia', hia]
    simp only
    have hv : s'.vec[j]? = s.vec[j]? := by rw [← hset]; simp [List.getElem?_set_ne hij]
    have hn' : s'.nStates = s.nStates := by rw [← hset]
    have hnom' : s'.nominal r a = s.nominal r a := by rw [← hset]; rfl
    rw [hv, hn', hnom']
  · cases hset

/-- **Magnitudes stay positive**: the nominal looked up through any alias (negated or not) is
    the stored one — in particular positive when the stored one is. -/
theorem C13_nominal_through_alias (r : Rel) (s : Sim) (a b : VName)
    (hu : s.nominals.signedValues = false) (hc : (r a).1 = (r b).1) :
    s.nominal r a = s.nominal r b := Sim.nominal_alias r s a b hu hc

/-! ## non-vacuity and the history of finding F2 -/

/-- `y = -x`, `z = y`: a relation with a negated alias and a chain -/
def rXYZ : Rel := fun n =>
  if n = "y" then ("x", .neg) else if n = "z" then ("x", .neg) else if n = "-x" then ("x", .neg)
  else (n, .pos)

theorem rXYZ_idem : rXYZ.Idem := by
  intro n
  unfold rXYZ
  split
  · decide
  · split
    · decide
    · split
      · decide
      · simp

/-- the hypotheses of `C13_get_set` are satisfiable with a negated alias and a bound pair:
    bounds `(-3, +inf)` stored through `y` read `(-inf, 3)` through `x` and `(-3, +inf)` through `z` -/
example :
    let pr : Val := .tup [some (.num (XVal.fin (-3))), some (.num XVal.pinf)]
    ∃ a', (ADict.empty true : ADict Val).set rXYZ "y" pr = .ok a'
      ∧ a'.get rXYZ "x" = .ok (.tup [some (.num XVal.ninf), some (.num (XVal.fin 3))])
      ∧ a'.get rXYZ "z" = .ok pr ∧ a'.keys = ["x"] := by
  refine ⟨_, rfl, ?_, ?_, ?_⟩ <;> decide

/-- a run and its alias-renamed run (non-vacuity of `RunAlias`) -/
example : RunAlias rXYZ true
    [Op.set "x" (Val.atom (.num (XVal.fin 2))), .get "x", .len]
    [Op.set "y" (signed .neg (Val.atom (.num (XVal.fin 2)))), .get "z", .len]
    [.pos, .neg, .pos] :=
  .cons (.set _ ⟨by decide, by decide⟩) (.cons (.get ⟨by decide, by decide⟩) (.cons (.refl _) .nil))

/-- simulation vector with `x` at position 0 (scaled by nominal 10) and `time` at position 1 -/
def simXY (signedNominals : Bool) : Sim :=
  { vec := [1/2, 0], nStates := 1,
    slot := fun n => if n = "x" then some 0 else if n = "time" then some 1 else none,
    nominals := ⟨signedNominals, [("x", 10)]⟩ }

/-- repaired behaviour on the F2 input: `x = 5`, so `y = -x` reads `-5`; `set_var(y, 3)` makes
    `x = -3` -/
example : (simXY false).getVar rXYZ "y" = some (-5)
    ∧ ((simXY false).setVar rXYZ "y" 3).bind (fun s => s.getVar rXYZ "x") = some (-3) := by
  constructor <;> decide +kernel

/-- **F2, machine-checked**: with a *signed* nominal dictionary (the code before 7f4289d) the
    nominal seen through the negated alias is `-10`, `get_var('y')` returns `+x` and
    `set_var('y', 3)` sets `x = 3` — the property fails. -/
theorem C13_signed_nominals_legacy_wrong :
    (simXY true).nominal rXYZ "y" = -10
      ∧ (simXY true).getVar rXYZ "y" = (simXY true).getVar rXYZ "x"
      ∧ (simXY true).getVar rXYZ "x" = some 5
      ∧ ((simXY true).setVar rXYZ "y" 3).bind (fun s => s.getVar rXYZ "x") = some 3 := by
  refine ⟨?_, ?_, ?_, ?_⟩ <;> decide +kernel

/-! ## pairs with a missing (`None`) side (finding F56) -/

/-- **A missing side stays missing under a negated alias**: the pair `(None, 5)` stored through
    `y = -x` reads `(-5, None)` through `x`, `(None, 5)` through `y` and `z`; `(None, None)` reads
    `(None, None)` through every name.  (`C13_get_set`, `C13_ops_refine_map`, `C13_alias_invariant`
    … hold for these pairs too: `Val` with optional tuple sides is a `LawfulNegVal`.) -/
theorem C13_none_side_under_negated_alias :
    let five : Atom := .num (XVal.fin 5)
    (∃ a', (ADict.empty true : ADict Val).set rXYZ "y" (.tup [none, some five]) = .ok a'
      ∧ a'.get rXYZ "x" = .ok (.tup [some (.num (XVal.fin (-5))), none])
      ∧ a'.get rXYZ "y" = .ok (.tup [none, some five])
      ∧ a'.get rXYZ "z" = .ok (.tup [none, some five]))
    ∧ (∃ a', (ADict.empty true : ADict Val).set rXYZ "y" (.tup [none, none]) = .ok a'
      ∧ a'.get rXYZ "x" = .ok (.tup [none, none]) ∧ a'.get rXYZ "z" = .ok (.tup [none, none])) := by
  refine ⟨⟨_, rfl, ?_, ?_, ?_⟩, ⟨_, rfl, ?_, ?_⟩⟩ <;> decide

/-- **F56, machine-checked**: the value map of the code before the repair (`(-val[1], -val[0])`)
    raises (`none` = `TypeError: bad operand type for unary -: 'NoneType'`) exactly on the pairs
    with a missing side, where the repaired map gives the swapped pair with the side still
    missing; on pairs with both sides present the two agree. -/
theorem C13_none_side_legacy_raises :
    Val.negLegacy (.tup [none, some (.num (XVal.fin 5))]) = none
      ∧ Val.negLegacy (.tup [some (.num (XVal.fin 5)), none]) = none
      ∧ Val.negLegacy (.tup [none, none]) = none
      ∧ Val.neg (.tup [none, some (.num (XVal.fin 5))]) = .tup [some (.num (XVal.fin (-5))), none]
      ∧ (∀ x y : Atom, Val.negLegacy (.tup [some x, some y]) = some (Val.neg (.tup [some x, some y]))) := by
  refine ⟨by decide, by decide, by decide, by decide, ?_⟩
  intro x y
  rfl

/-! ## data read from files under alias names (IO mixins) -/

/-- **The listed-variable reader is alias transparent** (`CSVMixin.history` over
    `initial_state.csv`; `IOMixin.history / seed / constant_inputs` over the imported time series):
    for canonical listed names `vars`, a signed store and a signed result dictionary, the loop
    `for v in vars: try: result[v] = store[v] except KeyError: pass` succeeds and through ANY name
    `k` the result is the store read through `k` when the quantity of `k` is listed and present,
    and is unchanged otherwise. -/
theorem C13_read_listed_transparent [LawfulNegVal V] (r : Rel) (store : ADict V)
    (hs : store.signedValues = true) (hok : ∀ k x, store.get r k = .ok x → ok x = true)
    (vars : List VName) (hcan : ∀ v ∈ vars, r v = (v, Sign.pos))
    (h : ADict V) (hh : h.signedValues = true) :
    ∃ h', readListed r store h vars = .ok h' ∧ h'.signedValues = true ∧
      (∀ k x, (r k).1 ∈ vars → store.get r k = .ok x → h'.get r k = .ok x) ∧
      (∀ k, ((r k).1 ∉ vars ∨ store.get r k = .error .keyError) → h'.get r k = h.get r k) :=
  readListed_transparent r store hs hok vars hcan h hh

/-- **A file column headed by any name of a quantity reaches every name of it, signed**: the
    column `col` with value `v` is put into the store (`store[col] = v`); the quantity of `col` is a
    listed variable.  Then the result of the reader, read through any name `k` of that quantity, is
    `sign(col) * sign(k) * v` -- whether `col` is the canonical name, an alias or a negated alias.
    (Seeded change c13i: with a plain `dict` as the store the column is found only when `col` is
    the canonical name itself.) -/
theorem C13_file_column_through_any_alias [LawfulNegVal V] (r : Rel) (a store : ADict V)
    (col : VName) (v : V) (hsa : a.signedValues = true) (hset : a.set r col v = .ok store)
    (hok : ∀ k x, store.get r k = .ok x → ok x = true)
    (vars : List VName) (hcan : ∀ w ∈ vars, r w = (w, Sign.pos)) (hcol : (r col).1 ∈ vars)
    (h : ADict V) (hh : h.signedValues = true) :
    ∃ h', readListed r store h vars = .ok h' ∧
      ∀ k, (r k).1 = (r col).1 → h'.get r k = .ok (signed ((r col).2 * (r k).2) v) := by
  have hss : store.signedValues = true := by
    obtain ⟨a', ha', hsg⟩ := (C13_set_rejects_iff r a col v).2 (by
      cases hv : ok v
      · simp [ADict.set, hv] at hset
      · rfl)
    rw [hset] at ha'
    injection ha' with e
    rw [e, hsg, hsa]
  obtain ⟨h', hrun, _, hA, _⟩ := readListed_transparent r store hss hok vars hcan h hh
  refine ⟨h', hrun, ?_⟩
  intro k hk
  exact hA k _ (hk ▸ hcol) (C13_get_set_signed r a store col k v hsa hset hk)

/-- non-vacuity: `initial_state.csv` with the single column `y = 3` (`y = -x`, `z = y`), listed
    variables `x` and `w`: the history reads `-3` through `x`, `3` through `y` and `z`; nothing for
    `w`.  With the header `x` the same store is reached. -/
example :
    let three : Val := .atom (.num (XVal.fin 3))
    ∃ store h', (ADict.empty true : ADict Val).set rXYZ "y" three = .ok store
      ∧ readListed rXYZ store (ADict.empty true) ["x", "w"] = .ok h'
      ∧ h'.get rXYZ "x" = .ok (.atom (.num (XVal.fin (-3))))
      ∧ h'.get rXYZ "y" = .ok three ∧ h'.get rXYZ "z" = .ok three
      ∧ h'.get rXYZ "w" = .error .keyError ∧ h'.keys = ["x"] := by
  refine ⟨_, _, rfl, rfl, ?_, ?_, ?_, ?_, ?_⟩ <;> decide

end RtcVerif.C13
