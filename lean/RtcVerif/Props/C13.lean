import RtcVerif.Model.C13
namespace RtcVerif.C13
theorem stub : True := trivial
end RtcVerif.C13
