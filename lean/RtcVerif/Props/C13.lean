import RtcVerif.Model.C13
import RtcVerif.Proofs.C13Lemmas
/-!
# C13 — aliases are transparent: any alias name addresses the same quantity, signed

All theorems are for an arbitrary alias relation `r : VName → VName × Sign`
(`AliasRelation.canonical_signed`), an arbitrary dictionary state, and an arbitrary value type `V`
whose unary minus is an involution (`LawfulNegVal`; numbers incl. nan/±inf, `Timeseries`, bound
tuples — swapped and negated —, lists are instances).  Where the law
`r (r n).1 = ((r n).1, +)` is needed it is an explicit hypothesis (`Rel.Idem`).
-/
namespace RtcVerif.C13
open PyDict

variable {V : Type} [NegVal V]

/-! ## get after set through any alias pair -/

/-- `__setitem__` rejects exactly the tuples that are not pairs, whatever the key. -/
theorem C13_set_rejects_iff (r : Rel) (a : ADict V) (k : VName) (v : V) :
    (a.set r k v = .error .assertion ↔ ok v = false) ∧
    (ok v = true → ∃ a', a.set r k v = .ok a' ∧ a'.signedValues = a.signedValues) := by
  unfold ADict.set
  cases h : ok v <;> simp

/-- **Get after set through any alias pair**: storing `v` through `k` and reading through any
    `k'` with the same canonical name yields `v` with the product of the two signs applied
    (a pair comes back swapped and negated under a relative minus); reading through a name of a
    different quantity is unaffected. -/
theorem C13_get_set [LawfulNegVal V] (r : Rel) (a a' : ADict V) (k : VName) (v : V)
    (hset : a.set r k v = .ok a') :
    (∀ k', (r k').1 = (r k).1 →
        a'.get r k' = .ok (signed ((csigned r a.signedValues k).2 * (csigned r a.signedValues k').2) v)) ∧
    (∀ k', (r k').1 ≠ (r k).1 → a'.get r k' = a.get r k') := by
  unfold ADict.set at hset
  split at hset
  · injection hset with hset
    subst hset
    constructor
    · intro k' hc
      have h1 : (csigned r a.signedValues k').1 = (csigned r a.signedValues k).1 := by
        unfold csigned; split <;> exact hc
      simp only [ADict.get, h1, get_set_same, signed_signed, Sign.hmul_eq]
    · intro k' hc
      have h1 : (csigned r a.signedValues k).1 ≠ (csigned r a.signedValues k').1 := by
        unfold csigned; split <;> exact fun e => hc e.symm
      simp only [ADict.get, get_set_other _ _ _ _ h1]
  · cases hset

/-- in a signed dictionary the sign applied is the product of the two alias signs -/
theorem C13_get_set_signed [LawfulNegVal V] (r : Rel) (a a' : ADict V) (k k' : VName) (v : V)
    (hs : a.signedValues = true) (hset : a.set r k v = .ok a') (hc : (r k').1 = (r k).1) :
    a'.get r k' = .ok (signed ((r k).2 * (r k').2) v) := by
  have := (C13_get_set r a a' k v hset).1 k' hc
  simpa [csigned, hs] using this

/-- **Unsigned dictionaries** (nominals, variable types) return exactly what was stored, through
    any alias, negated or not — for *every* value type (no minus is ever applied). -/
theorem C13_unsigned_positive (r : Rel) (a a' : ADict V) (k k' : VName) (v : V)
    (hu : a.signedValues = false) (hset : a.set r k v = .ok a') (hc : (r k').1 = (r k).1) :
    a'.get r k' = .ok v := by
  unfold ADict.set at hset
  split at hset
  · injection hset with hset
    subst hset
    simp [ADict.get, csigned, hu, hc, get_set_same]
  · cases hset

end RtcVerif.C13
