import RtcVerif.Model.C14
import RtcVerif.Proofs.NumOrder
import RtcVerif.Proofs.C14Lemmas
import Mathlib.Order.Lattice
/-!
# C14 — Modelica declarations are honoured: bounds, nominal, start, fixed, types, roles

The decision logic of `ModelicaMixin` / `SimulationProblem` over the variable records delivered by
pymoca, one theorem per clause of the property ("decision logic stated outright"): every theorem
is for an arbitrary declaration, arbitrary parameter values and arbitrary inherited entries.
-/
namespace RtcVerif.C14
open RtcVerif

/-! ## roles -/

/-- **Roles (optimisation)**: an input is a control iff it is not a delay state, not a lookup
    table and not declared fixed; it is a constant input iff (not delay, not lookup and) fixed;
    delay states are algebraics; names in the `lookup_tables` keyword are lookup tables. -/
theorem C14_roles (isDelay isLookup fixed : Bool) :
    (inputRoleOpt isDelay isLookup fixed = .control ↔ isDelay = false ∧ isLookup = false ∧ fixed = false) ∧
    (inputRoleOpt isDelay isLookup fixed = .constantInput ↔ isDelay = false ∧ isLookup = false ∧ fixed = true) ∧
    (inputRoleOpt isDelay isLookup fixed = .algebraic ↔ isDelay = true) ∧
    (inputRoleOpt isDelay isLookup fixed = .lookup ↔ isDelay = false ∧ isLookup = true) := by
  cases isDelay <;> cases isLookup <;> cases fixed <;> simp [inputRoleOpt]

/-- **Roles (simulation)**: no input is a control; every non-delay, non-lookup input is a
    constant input whatever its `fixed` attribute. -/
theorem C14_roles_sim (isDelay isLookup : Bool) :
    inputRoleSim isDelay isLookup ≠ .control ∧
    (inputRoleSim isDelay isLookup = .constantInput ↔ isDelay = false ∧ isLookup = false) := by
  cases isDelay <;> cases isLookup <;> simp [inputRoleSim]

/-! ## bounds -/

/-- **Parameter-dependent attributes** are substituted with the parameter values in force: an
    attribute `a * p + b` behaves exactly as the literal `a * q + b` when `p` has the value `q`;
    a parameter without value (NaN) or without entry does not resolve. -/
theorem C14_attr_substitution (env : Env) (a b : Rat) (p : String) :
    (∀ q, env p = some (some q) →
        (Attr.sym a p b).resolve env = (Attr.lit (.fin (a * q + b)) false).resolve env) ∧
    (env p = some none → (Attr.sym a p b).resolve env = .nan) ∧
    (env p = none → (Attr.sym a p b).resolve env = .unresolved) := by
  refine ⟨?_, ?_, ?_⟩ <;> intro h <;> simp [Attr.resolve, *]
  intro h2; simp [h2]

/-- **Bounds are intersected**: when `min` and `max` resolve to `m` and `M`, the bounds are
    `(max lo m, min hi M)` on top of the inherited pair `(lo, hi)` (default `(-inf, inf)`,
    `(0, 1)` for a Boolean), i.e. a value is admitted iff it is admitted by the inherited *and*
    by the declared bounds. -/
theorem C14_bounds_intersect (env : Env) (inherited : Option (EVal × EVal)) (d : Decl) (m M : EVal)
    (hm : d.min.resolve env = .val m) (hM : d.max.resolve env = .val M) :
    ∃ lo hi, boundsOf env inherited d = some (lo, hi) ∧
      lo = max (inherited.getD (defaultBounds d.ptype)).1 m ∧
      hi = min (inherited.getD (defaultBounds d.ptype)).2 M ∧
      ∀ x : EVal, (lo ≤ x ∧ x ≤ hi) ↔
        (((inherited.getD (defaultBounds d.ptype)).1 ≤ x ∧ x ≤ (inherited.getD (defaultBounds d.ptype)).2)
          ∧ (m ≤ x ∧ x ≤ M)) := by
  refine ⟨_, _, ?_, rfl, rfl, ?_⟩
  · simp [boundsOf, hm, hM, EVal.max_eq, EVal.min_eq]
  · intro x
    rw [max_le_iff, le_min_iff]
    constructor
    · rintro ⟨⟨h1, h2⟩, h3, h4⟩; exact ⟨⟨h1, h3⟩, h2, h4⟩
    · rintro ⟨⟨h1, h3⟩, h2, h4⟩; exact ⟨⟨h1, h2⟩, h3, h4⟩

/-- `bounds()` raises exactly when `min` or `max` cannot be resolved to a number -/
theorem C14_bounds_raise_iff (env : Env) (inherited : Option (EVal × EVal)) (d : Decl) :
    boundsOf env inherited d = none ↔
      ((∀ m, d.min.resolve env ≠ .val m) ∨ (∀ M, d.max.resolve env ≠ .val M)) := by
  unfold boundsOf
  cases h1 : d.min.resolve env <;> cases h2 : d.max.resolve env <;> simp

/-- defaults: a Boolean without inherited bounds lives in `[0, 1]`, anything else in `(-inf, inf)` -/
theorem C14_bounds_default (t : PType) :
    defaultBounds t = if t = .bool then (.fin 0, .fin 1) else (.ninf, .pinf) := by
  cases t <;> rfl

/-! ## nominal -/

/-- **Nominal**: `variable_nominal` is always a positive magnitude; it is `|n|` when the declared
    nominal resolves to a number other than `0, ±1`, and the default `1` otherwise (unresolvable,
    NaN, `0`, `±1`). -/
theorem C14_nominal (env : Env) (d : Decl) :
    EVal.fin 0 < nominalOf env d ∧
    (∀ x, d.nominal.resolve env = .val x → eabs x ≠ .fin 0 → eabs x ≠ .fin 1 →
        nominalOf env d = eabs x) ∧
    ((∀ x, d.nominal.resolve env = .val x → eabs x = .fin 0 ∨ eabs x = .fin 1) →
        nominalOf env d = .fin 1) := by
  have one_pos : EVal.fin 0 < EVal.fin 1 := by decide
  refine ⟨?_, ?_, ?_⟩
  · unfold nominalOf
    cases h : d.nominal.resolve env with
    | val x =>
      simp only
      split
      · exact one_pos
      · rename_i hne
        have h0 : eabs x ≠ .fin 0 := fun e => hne (Or.inl e)
        exact lt_of_le_of_ne (eabs_nonneg x) (fun e => h0 e.symm)
    | nan => exact one_pos
    | unresolved => exact one_pos
  · intro x hx h0 h1
    simp [nominalOf, hx, h0, h1]
  · intro h
    unfold nominalOf
    cases hx : d.nominal.resolve env with
    | val x => simp [h x hx]
    | nan => rfl
    | unresolved => rfl

/-! ## start values -/

/-- **A fixed start value is the initial condition**: for a state with `fixed = true` whose start
    resolves to `x`, `history` holds exactly the value `x` at `t0` (`startCast`: through `python_type` when
    pymoca delivers an `MX`, which changes nothing for a Real) (replacing any
    inherited entry); a fixed parameter-dependent start that does not resolve raises; a non-fixed
    state gets no entry (an inherited one stays). -/
theorem C14_fixed_start_is_initial_condition (env : Env) (d : Decl) :
    (d.fixed = true → ∀ x, d.start.resolve env = .val x → historyOf env d = .put (startCast d x)) ∧
    (d.ptype = .real → ∀ x, startCast d x = x) ∧
    (d.fixed = true → (∀ x, d.start.resolve env ≠ .val x) → historyOf env d = .raise) ∧
    (d.fixed = false → historyOf env d = .keep) := by
  refine ⟨?_, ?_, ?_, ?_⟩
  · intro hf x hx
    unfold historyOf startCast
    simp only [hf, if_true]
    cases hs : d.start with
    | lit y mx =>
      rw [hs] at hx; simp [Attr.resolve] at hx
      cases mx <;> simp [hx]
    | sym a p b => rw [hs] at hx; simp [hx]
  · intro hp x
    unfold startCast
    cases d.start with
    | lit y mx => cases mx <;> simp [hp, cast]
    | sym a p b => simp [hp, cast]
  · intro hf hx
    unfold historyOf
    simp only [hf, if_true]
    cases hs : d.start with
    | lit y mx => rw [hs] at hx; exact absurd rfl (hx y)
    | sym a p b =>
      rw [hs] at hx
      cases hr : (Attr.sym a p b).resolve env with
      | val x => exact absurd hr (hx x)
      | nan => simp [hr]
      | unresolved => simp [hr]
  · intro hf; simp [historyOf, hf]

/-- **A non-fixed, non-zero start value is the seed**: the variable is seeded with the constant
    `python_type(x)` (over all its time stamps) iff it is not fixed and its start is
    parameter-dependent (and resolves) or a non-zero literal; a fixed variable, a zero literal
    and an unresolvable expression are not seeded. -/
theorem C14_seed (env : Env) (d : Decl) :
    (d.fixed = true → seedOf env d = .keep) ∧
    (d.fixed = false → ∀ x mx, d.start = .lit x mx →
        seedOf env d = if mx = true ∨ x ≠ .fin 0 then .put (cast d.ptype x) else .keep) ∧
    (d.fixed = false → ∀ a p b, d.start = .sym a p b →
        seedOf env d = match (Attr.sym a p b).resolve env with
          | .val x => .put (cast d.ptype x)
          | _ => .keep) ∧
    seedOf env d ≠ .raise := by
  refine ⟨?_, ?_, ?_, ?_⟩
  · intro hf; simp [seedOf, hf]
  · intro hf x mx hs
    simp [seedOf, hf, hs]
  · intro hf a p b hs
    simp only [seedOf, hf, hs]
    cases (Attr.sym a p b).resolve env <;> simp
  · unfold seedOf
    split
    · simp
    · cases hs : d.start with
      | lit x mx => simp only; split <;> simp
      | sym a p b => simp only; cases (Attr.sym a p b).resolve env <;> simp

/-- a start value is never both the initial condition and a seed -/
theorem C14_start_exclusive (env : Env) (d : Decl) :
    (∃ v, historyOf env d = .put v) → seedOf env d = .keep := by
  rintro ⟨v, hv⟩
  cases hf : d.fixed
  · simp [historyOf, hf] at hv
  · simp [seedOf, hf]

/-- **Discreteness**: a variable is discrete iff it is not a Real -/
theorem C14_discrete (t : PType) : isDiscrete t = true ↔ t ≠ .real := by
  cases t <;> simp [isDiscrete]

/-- **Which member's parameters**: parameter-dependent `min`, `max`, `nominal` are substituted
    with member 0's parameter values for the whole ensemble; `start` values with the values of
    the member whose history / seed is built. -/
theorem C14_member_parameters (envs : Nat → Env) (member : Nat) :
    envOf envs .bounds member = envs 0 ∧ envOf envs .nominal member = envs 0 ∧
    envOf envs .history member = envs member ∧ envOf envs .seed member = envs member :=
  ⟨rfl, rfl, rfl, rfl⟩

/-! ## parameters and outputs -/

/-- **Parameter override chain** model < file < code: the value comes from code if code gives
    one, else from the parameter file if it gives one, else from the model. -/
theorem C14_parameter_chain (model file code : List (String × PVal)) (n : String) :
    (∀ v, code.lookup n = some v → chain model file code n = some v) ∧
    (code.lookup n = none → ∀ v, file.lookup n = some v → chain model file code n = some v) ∧
    (code.lookup n = none → file.lookup n = none → chain model file code n = model.lookup n) ∧
    chain model file code n = (code ++ file ++ model).lookup n := by
  refine ⟨?_, ?_, ?_, ?_⟩
  · intro v h; simp [chain, h]
  · intro h v h2; simp [chain, h, h2]
  · intro h h2; simp [chain, h, h2]
  · unfold chain
    rw [List.lookup_append, List.lookup_append]
    cases code.lookup n <;> cases file.lookup n <;> simp

/-- **Outputs**: what is exported is the declared outputs plus the controls, nothing else -/
theorem C14_outputs (declared controls : List String) (n : String) :
    n ∈ outputsOf declared controls ↔ n ∈ declared ∨ n ∈ controls := by
  simp [outputsOf]

/-- **Outputs, with multiplicity**: a name is listed in `output_variables` as often as it is declared
    an output plus as often as it is a control, and the list is the declared outputs followed by the
    controls: no control is dropped or merged because some declared output happens to carry (through
    an alias) the same series. -/
theorem C14_outputs_count (declared controls : List String) (n : String) :
    (outputsOf declared controls).count n = declared.count n + controls.count n ∧
    outputsOf declared controls = declared ++ controls := by
  simp [outputsOf, List.count_append]

/-- **The controls are the non-fixed inputs**: `dae_variables["control_inputs"]` holds the name of
    an input iff the input is not a delay state, not a lookup table and not declared fixed. -/
theorem C14_controls (inputs : List InputRec) (n : String) :
    n ∈ controlsOf inputs ↔
      ∃ i ∈ inputs, i.name = n ∧ i.isDelay = false ∧ i.isLookup = false ∧ i.fixed = false := by
  unfold controlsOf
  rw [mem_roleListOf]
  constructor
  · rintro ⟨i, hi, hr, hn⟩
    exact ⟨i, hi, hn, (C14_roles i.isDelay i.isLookup i.fixed).1.1 hr⟩
  · rintro ⟨i, hi, hn, h⟩
    exact ⟨i, hi, (C14_roles i.isDelay i.isLookup i.fixed).1.2 h, hn⟩

/-- **Every control is exported, exactly once, under its own name** -- whatever the declared outputs
    are (in particular when a declared output is an alias, possibly negated, of that control: the
    alias relation is no input of `exportedOf`).  For pairwise distinct input names (pymoca's
    `inputs`) and declared output names that are not input names (Modelica: one prefix per
    component): every input that is not delay / lookup / fixed occurs exactly once in
    `output_variables`, every other input not at all, every declared output as often as declared. -/
theorem C14_exported (declared : List String) (inputs : List InputRec)
    (hnd : (inputs.map (·.name)).Nodup) (hdisj : ∀ i ∈ inputs, i.name ∉ declared) :
    (∀ i ∈ inputs, (exportedOf declared inputs).count i.name =
        if i.isDelay = false ∧ i.isLookup = false ∧ i.fixed = false then 1 else 0) ∧
    (∀ n ∈ declared, (exportedOf declared inputs).count n = declared.count n) ∧
    (∀ n, n ∈ exportedOf declared inputs ↔ n ∈ declared ∨ n ∈ controlsOf inputs) := by
  refine ⟨?_, ?_, ?_⟩
  · intro i hi
    have h0 : declared.count i.name = 0 := List.count_eq_zero.2 (hdisj i hi)
    rw [exportedOf, (C14_outputs_count _ _ _).1, h0, controlsOf, count_roleListOf _ _ hnd i hi, Nat.zero_add]
    have := (C14_roles i.isDelay i.isLookup i.fixed).1
    by_cases h : i.role = .control
    · rw [if_pos h, if_pos (this.1 h)]
    · rw [if_neg h, if_neg (fun h' => h (this.2 h'))]
  · intro n hn
    have h0 : (controlsOf inputs).count n = 0 := by
      rw [List.count_eq_zero]
      intro hm
      obtain ⟨i, hi, hin, _⟩ := (C14_controls inputs n).1 hm
      exact hdisj i hi (hin ▸ hn)
    rw [exportedOf, (C14_outputs_count _ _ _).1, h0, Nat.add_zero]
  · intro n; exact C14_outputs _ _ n

/-! ## simulation: start / fixed / initial_state / seed precedence -/

/-- **Simulation precedence** for a literal start `x` (`v = python_type(x)`):
    * declared fixed: started and fixed at `v`, whatever `initial_state()` and `seed()` hold;
    * not fixed, `initial_state` has the value `i`: the variable becomes fixed, at `v` when
      `v ≠ 0` and at `i` otherwise, and `seed()` is not consulted;
    * not fixed, no `initial_state`, `seed` has `s`: started (not fixed) at `s`;
    * otherwise started (not fixed) at `v`. -/
theorem C14_sim_precedence (env : Env) (d : Decl) (x : EVal) (mx : Bool)
    (hs : d.start = .lit x mx) (ini sd : Option Rat) :
    (d.fixed = true → ∃ src, simStart env d ini sd = some ⟨src, cast d.ptype x, true⟩) ∧
    (d.fixed = false → ∀ i, ini = some i →
        simStart env d ini sd =
          if cast d.ptype x ≠ .fin 0 then some ⟨.modelica, cast d.ptype x, true⟩
          else some ⟨.initialState, .fin i, true⟩) ∧
    (d.fixed = false → ini = none → ∀ s, sd = some s →
        simStart env d ini sd = some ⟨.seed, .fin s, false⟩) ∧
    (d.fixed = false → ini = none → sd = none →
        ∃ src, simStart env d ini sd = some ⟨src, cast d.ptype x, false⟩) := by
  refine ⟨?_, ?_, ?_, ?_⟩
  · intro hf
    by_cases hv : cast d.ptype x = .fin 0
    · exact ⟨.default, by simp [simStart, hs, hf, hv]⟩
    · exact ⟨.modelica, by simp [simStart, hs, hf, hv]⟩
  · intro hf i hi
    by_cases hv : cast d.ptype x = .fin 0 <;> simp [simStart, hs, hf, hi, hv]
  · intro hf hi s hsd
    by_cases hv : cast d.ptype x = .fin 0 <;> simp [simStart, hs, hf, hi, hsd, hv]
  · intro hf hi hsd
    by_cases hv : cast d.ptype x = .fin 0
    · exact ⟨.default, by simp [simStart, hs, hf, hi, hsd, hv]⟩
    · exact ⟨.modelica, by simp [simStart, hs, hf, hi, hsd, hv]⟩

/-- a parameter-dependent start is used with the parameter values in force (and wins over
    `initial_state`, loses only to a `seed` of a variable that stays non-fixed) -/
theorem C14_sim_symbolic_start (env : Env) (d : Decl) (a b q : Rat) (p : String)
    (hs : d.start = .sym a p b) (hp : env p = some (some q)) (ini : Option Rat) :
    simStart env d ini none = some ⟨.modelica, .fin (a * q + b), d.fixed || ini.isSome⟩ := by
  cases hf : d.fixed <;> cases ini <;> simp [simStart, hs, hp, hf, Attr.resolve]

/-! ## non-vacuity -/

/-- `Real x(min = -5, max = 2*pmax, nominal = -4, start = pstart, fixed = true)` with
    `pmax = 7` overridden to `9` by code and an inherited pair `(-1, 100)` -/
def exDecl : Decl :=
  { name := "x", ptype := .real, min := .lit (.fin (-5)) false, max := .sym 2 "pmax" 0,
    nominal := .lit (.fin (-4)) false, start := .sym 1 "pstart" 0, fixed := true }

def exEnv : Env := chain [("pmax", some 7), ("pstart", some 2), ("pfree", none)] [] [("pmax", some 9)]

example : boundsOf exEnv (some (.fin (-1), .fin 100)) exDecl = some (.fin (-1), .fin 18)
    ∧ nominalOf exEnv exDecl = .fin 4
    ∧ historyOf exEnv exDecl = .put (.fin 2)
    ∧ seedOf exEnv exDecl = .keep
    ∧ boundsOf exEnv none { exDecl with max := .sym 1 "pfree" 0 } = none := by
  refine ⟨?_, ?_, ?_, ?_, ?_⟩ <;> decide +kernel

/-- `input u(fixed=false)`, `input q` (no `fixed`), `input c(fixed=true)`, a lookup input and a
    delay state, with declared outputs `u_out` (= u), `y`, `nq` (= -q): both controls are exported
    next to the outputs that are their aliases -/
def exInputs : List InputRec :=
  [⟨"u", false, false, false⟩, ⟨"q", false, false, false⟩, ⟨"c", false, false, true⟩,
   ⟨"tab", false, true, false⟩, ⟨"yd", true, false, false⟩]

example : exportedOf ["u_out", "y", "nq"] exInputs = ["u_out", "y", "nq", "u", "q"]
    ∧ (exInputs.map (·.name)).Nodup ∧ (∀ i ∈ exInputs, i.name ∉ ["u_out", "y", "nq"])
    ∧ (exportedOf ["u_out", "y", "nq"] exInputs).count "u" = 1
    ∧ (exportedOf ["u_out", "y", "nq"] exInputs).count "c" = 0 := by
  refine ⟨?_, ?_, ?_, ?_, ?_⟩ <;> decide +kernel

end RtcVerif.C14
