import RtcVerif.Model.C15
import RtcVerif.Proofs.C15
import RtcVerif.Proofs.C15Fin
import RtcVerif.Props.C19
/-!
# C15 — trajectory accessors agree with each other and with the extracted results

All theorems hold for every decision vector (`xs`, the initial-derivative entries), every grid,
nominal, sign, history and interpolation mode; "results" are the decoded values
`nominal * X[inds]` that `extract_results` returns (`SVar.results`), seen through an alias with
its sign (`SVar.signedResults`, `SVar.resultKnots`).
-/
namespace RtcVerif.C15
open RtcVerif RtcVerif.Interp

/-! ## `state_at` -/

/-- **Lookup order**: a name that resolves to a variable of the decision vector is answered from
    the decision vector, whatever the constant inputs and parameters contain. -/
theorem stateAt_decision_variable (p : Prob) (name : String) (v : SVar) (t : Rat)
    (scaled extrap : Bool) (hv : p.svars.lookup (p.canon name).1 = some v) :
    stateAt p name t scaled extrap = svStateAt p.t0 v (p.canon name).2 t scaled extrap := by
  simp [stateAt, hv]

/-- … otherwise a constant input of that name is used, before the parameters … -/
theorem stateAt_constant_input (p : Prob) (name : String) (ci : CIn) (t : Rat)
    (scaled extrap : Bool) (hv : p.svars.lookup (p.canon name).1 = none)
    (hc : p.cins.lookup (p.canon name).1 = some ci) :
    stateAt p name t scaled extrap = ciStateAt ci (p.canon name).2 t extrap := by
  simp [stateAt, hv, hc]

/-- … then a parameter (with the alias sign); an unknown name raises (`KeyError`). -/
theorem stateAt_parameter_or_unknown (p : Prob) (name : String) (t : Rat) (scaled extrap : Bool)
    (hv : p.svars.lookup (p.canon name).1 = none) (hc : p.cins.lookup (p.canon name).1 = none) :
    stateAt p name t scaled extrap =
      match p.pars.lookup (p.canon name).1 with
      | some q => .num (sgn (p.canon name).2 * q)
      | none => .raise := by
  cases h : p.pars.lookup (p.canon name).1 <;> simp [stateAt, hv, hc, h]

/-- **Core**: at and after `t0` (inside the variable's own time range, or anywhere when
    extrapolating) `state_at` is the interpolation — by the variable's interpolation mode — of the
    extracted result, for every decision vector.  (The code interpolates the scaled entries and
    multiplies by the nominal and the sign afterwards.) -/
theorem svStateAt_eq_interp_results (t0 : Rat) (v : SVar) (neg : Bool) (t : Rat) (extrap : Bool)
    (ht : t0 ≤ t)
    (hin : extrap = true ∨ (v.times.headD 0 ≤ t ∧ t ≤ (v.times.getLast?).getD 0)) :
    svStateAt t0 v neg t false extrap = ofOut (interpSym v.mode (v.resultKnots neg) t) := by
  have h1 : ¬ t < t0 := not_lt.2 ht
  have h2 : (!extrap && (decide (t < v.times.headD 0) || decide (t > (v.times.getLast?).getD 0)))
      = false := by
    rcases hin with h | ⟨ha, hb⟩
    · simp [h]
    · have ha' : v.times.head?.getD 0 ≤ t := by simpa using ha
      simp [not_lt.2 hb, ha']
  unfold svStateAt
  simp only [h1, if_false, h2]
  rw [applySign_eq_scale, resultKnots_eq_scale, interpSym_scale]
  simp [Res.scale_scale]

/-- `scaled=True` divides that value by the nominal. -/
theorem svStateAt_scaled (t0 : Rat) (v : SVar) (neg : Bool) (t : Rat) (extrap : Bool)
    (hn : v.nominal ≠ 0) (ht : t0 ≤ t)
    (hin : extrap = true ∨ (v.times.headD 0 ≤ t ∧ t ≤ (v.times.getLast?).getD 0)) :
    svStateAt t0 v neg t true extrap
      = (ofOut (interpSym v.mode (v.resultKnots neg) t)).divBy v.nominal := by
  have h1 : ¬ t < t0 := not_lt.2 ht
  have h2 : (!extrap && (decide (t < v.times.headD 0) || decide (t > (v.times.getLast?).getD 0)))
      = false := by
    rcases hin with h | ⟨ha, hb⟩
    · simp [h]
    · have ha' : v.times.head?.getD 0 ≤ t := by simpa using ha
      simp [not_lt.2 hb, ha']
  unfold svStateAt
  simp only [h1, if_false, h2, Bool.false_eq_true, if_true]
  rw [applySign_eq_scale, resultKnots_eq_scale, interpSym_scale]
  cases ofOut (interpSym v.mode v.knots t) with
  | num q =>
    simp only [Res.scale_num, Res.divBy_num]
    congr 1
    field_simp
  | nan => rfl
  | raise => rfl

/-- Outside the variable's own time range a request with `extrapolate=False` raises. -/
theorem svStateAt_outside_raises (t0 : Rat) (v : SVar) (neg : Bool) (t : Rat) (scaled : Bool)
    (ht : t0 ≤ t) (hout : t < v.times.headD 0 ∨ (v.times.getLast?).getD 0 < t) :
    svStateAt t0 v neg t scaled false = .raise := by
  have h1 : ¬ t < t0 := not_lt.2 ht
  have h2 : (!false && (decide (t < v.times.headD 0) || decide (t > (v.times.getLast?).getD 0)))
      = true := by
    rcases hout with h | h
    · have h' : t < v.times.head?.getD 0 := by simpa using h
      simp [h']
    · simp [h]
  unfold svStateAt
  simp only [h1, if_false, h2, if_true]
  cases neg <;> rfl

theorem interpSym_at_knot (mode : Nat) (hm : mode ≤ 2) (ks : Knots) (hs : Sorted ks)
    (k : Rat × Rat) (hk : k ∈ ks) : interpSym mode ks k.1 = .val (XVal.fin k.2) := by
  unfold interpSym
  exact C19.interp_at_knot ks hs _ _ mode hm k hk

/-- **Consistency with the results**: at one of the variable's own time stamps (at or after `t0`)
    `state_at` returns exactly the extracted value, in every mode, with or without
    `extrapolate`. -/
theorem svStateAt_at_knot (t0 : Rat) (v : SVar) (neg : Bool) (extrap : Bool)
    (hs : Sorted v.knots) (hm : v.mode ≤ 2) (hlen : v.times.length = v.xs.length)
    (k : Rat × Rat) (hk : k ∈ v.resultKnots neg) (ht : t0 ≤ k.1) :
    svStateAt t0 v neg k.1 false extrap = .num k.2 := by
  have hs' := sorted_resultKnots v neg hs
  have htimes := resultKnots_times v neg hlen
  have hne : v.resultKnots neg ≠ [] := List.ne_nil_of_mem hk
  obtain ⟨x, rest, hx⟩ := List.exists_cons_of_ne_nil hne
  have hfirst : v.times.headD 0 ≤ k.1 := by
    have := Sorted.first_le (hx ▸ hs') k (hx ▸ hk)
    have h2 : v.times.headD 0 = x.1 := by rw [← htimes, hx]; simp
    rw [h2]; exact this
  have hlast : k.1 ≤ (v.times.getLast?).getD 0 := by
    have := Sorted.le_last hs' k hk
    rw [lastTime_eq, htimes] at this
    exact this
  rw [svStateAt_eq_interp_results t0 v neg k.1 extrap ht (Or.inr ⟨hfirst, hlast⟩),
    interpSym_at_knot v.mode hm _ hs' k hk]
  rfl

/-- **After the end / before the first own stamp** (extrapolating): the last / first extracted
    value (constant extrapolation; the symbolic interpolant clamps). -/
theorem svStateAt_clamps (t0 : Rat) (v : SVar) (neg : Bool) (t : Rat)
    (hs : Sorted v.knots) (hm : v.mode ≤ 2) (hne : v.knots ≠ []) (ht : t0 ≤ t) :
    (lastTime (v.resultKnots neg) < t →
        svStateAt t0 v neg t false true = .num (lastVal (v.resultKnots neg))) ∧
    (t < firstTime (v.resultKnots neg) →
        svStateAt t0 v neg t false true = .num (firstVal (v.resultKnots neg))) := by
  have hs' := sorted_resultKnots v neg hs
  have hne' : v.resultKnots neg ≠ [] := by
    rw [resultKnots_eq_scale]
    intro h
    apply hne
    simpa [scaleKnots] using h
  have hc := C19.interp_sym_clamps v.mode hm (v.resultKnots neg) hs' hne' t
  rw [svStateAt_eq_interp_results t0 v neg t true ht (Or.inl rfl)]
  constructor
  · intro h; rw [hc.2 h]; rfl
  · intro h; rw [hc.1 h]; rfl

/-- **Before `t0` without history** (finding F12 repaired): with `extrapolate` the value at `t0`
    in physical units — the first extracted value — (divided by the nominal when `scaled`);
    without `extrapolate` NaN. -/
theorem svStateAt_before_t0_no_history (t0 : Rat) (v : SVar) (neg : Bool) (t : Rat)
    (ht : t < t0) (hh : v.hist = none) :
    svStateAt t0 v neg t false true = .num ((v.signedResults neg).headD 0)
    ∧ (v.nominal ≠ 0 →
        svStateAt t0 v neg t true true = .num ((v.signedResults neg).headD 0 / v.nominal))
    ∧ ∀ scaled, svStateAt t0 v neg t scaled false = .nan := by
  have hhead : (v.signedResults neg).headD 0 = sgn neg * (v.nominal * v.xs.headD 0) := by
    unfold SVar.signedResults SVar.results
    cases v.xs <;> simp
  refine ⟨?_, ?_, ?_⟩
  · unfold svStateAt
    simp only [ht, if_true, hh, hhead]
    rw [applySign_eq_scale]
    simp [mul_comm]
  · intro hn
    unfold svStateAt
    simp only [ht, if_true, hh, hhead]
    rw [applySign_eq_scale]
    simp only [Res.divBy_num, Res.scale_num]
    congr 1
    field_simp
  · intro scaled
    unfold svStateAt
    simp only [ht, if_true, hh]
    cases scaled <;> cases neg <;> rfl

/-- **Before `t0` with history**: the (numeric) interpolation of the history series seen through
    the alias sign, with the end values as fills when extrapolating and NaN otherwise. -/
theorem svStateAt_before_t0_history (t0 : Rat) (v : SVar) (neg : Bool) (t : Rat) (extrap : Bool)
    (h : Knots) (ht : t < t0) (hh : v.hist = some h) :
    svStateAt t0 v neg t false extrap =
      ofOut (interpScalar v.mode (signedHist neg h)
        (if extrap then finFill (firstVal (signedHist neg h)) else nanFill)
        (if extrap then finFill (lastVal (signedHist neg h)) else nanFill) t) := by
  unfold svStateAt
  simp only [ht, if_true, hh]
  rw [applySign_eq_scale, signedHist_eq_scale, firstVal_scaleKnots, lastVal_scaleKnots]
  cases extrap
  · have := interpScalar_scale (sgn neg) v.mode h nanFill nanFill t
    simpa using this.symm
  · have := interpScalar_scale (sgn neg) v.mode h (finFill (firstVal h)) (finFill (lastVal h)) t
    simpa using this.symm

/-- at a history time stamp before `t0`, `state_at` returns the (signed) history value -/
theorem svStateAt_at_history_knot (t0 : Rat) (v : SVar) (neg : Bool) (extrap : Bool) (h : Knots)
    (hh : v.hist = some h) (hs : Sorted h) (hm : v.mode ≤ 2)
    (k : Rat × Rat) (hk : k ∈ signedHist neg h) (ht : k.1 < t0) :
    svStateAt t0 v neg k.1 false extrap = .num k.2 := by
  have hs' : Sorted (signedHist neg h) := by
    rw [signedHist_eq_scale]; exact sorted_scaleKnots _ _ hs
  have hne : signedHist neg h ≠ [] := List.ne_nil_of_mem hk
  rw [svStateAt_before_t0_history t0 v neg k.1 extrap h ht hh,
    C19.interp_scalar_early_exit_agrees v.mode hm _ hs' _ _ k.1 hne,
    C19.interp_at_knot _ hs' _ _ v.mode hm k hk]
  rfl

/-! ## `der_at` -/

/-- **At `t0`, differentiated state**: the dedicated initial-derivative variable, decoded
    (`nominal * X[idx]`, what `extract_results` reports as `initial_der(x)`) with the alias sign. -/
theorem derAt_initial_derivative (p : Prob) (name : String) (nomD xd : Rat)
    (hd : p.initDerOf name = some (nomD, xd)) :
    derAt p name p.t0 = .num (sgn (p.canon name).2 * (nomD * xd)) := by
  unfold derAt
  simp only [if_true, hd]
  congr 1
  ring

/-- **First available point** (first history stamp for `t ≤ t0`, else the first own stamp) of a
    variable without dedicated initial derivative: `0`. -/
theorem derAt_first_point (p : Prob) (name : String) (t : Rat) (rest : List Rat)
    (hsp : t ≠ p.t0 ∨ p.initDerOf name = none) (hk : p.derKnots name t = t :: rest) :
    derAt p name t = .num 0 := by
  have hs : (if t = p.t0 then p.initDerOf name else none) = none := by
    rcases hsp with h | h <;> simp [h]
  unfold derAt
  simp only [hs, hk, if_true]

/-- **Backward difference quotient**: for `a < t ≤ b`, `a`, `b` consecutive entries of
    `history times ++ own times` (`own times` only for `t > t0`), `der_at` is the difference
    quotient of the `state_at` values at `b` and `a` (on a stamp: backward; between stamps: the
    slope of that interval). -/
theorem derAt_backward_difference (p : Prob) (name : String) (t : Rat) (pre post : List Rat)
    (a b : Rat) (hsp : t ≠ p.t0 ∨ p.initDerOf name = none)
    (hk : p.derKnots name t = pre ++ a :: b :: post)
    (hs : (pre ++ a :: b :: post).Pairwise (· < ·)) (h1 : a < t) (h2 : t ≤ b) :
    derAt p name t
      = ((stateAt p name b false true).sub (stateAt p name a false true)).divBy (b - a) := by
  have hsp' : (if t = p.t0 then p.initDerOf name else none) = none := by
    rcases hsp with h | h <;> simp [h]
  have hseg := findSeg_spec pre post a b t hs h1 h2
  unfold derAt
  simp only [hsp', hk]
  cases pre with
  | nil =>
    have : t ≠ a := ne_of_gt h1
    simp only [List.nil_append] at hseg ⊢
    simp only [this, if_false, hseg]
  | cons q pre =>
    have hq : q < a := (List.pairwise_cons.1 hs).1 a (by simp)
    have : t ≠ q := ne_of_gt (lt_trans hq h1)
    simp only [List.cons_append] at hseg ⊢
    simp only [this, if_false, hseg]

/-- **Outside** `history ++ times` `der_at` raises (`IndexError`). -/
theorem derAt_outside_raises (p : Prob) (name : String) (t : Rat) (h0 : Rat) (rest : List Rat)
    (hsp : t ≠ p.t0 ∨ p.initDerOf name = none) (hk : p.derKnots name t = h0 :: rest)
    (hs : (h0 :: rest).Pairwise (· < ·)) (hout : t < h0 ∨ ∀ x ∈ h0 :: rest, x < t) :
    derAt p name t = .raise := by
  have hsp' : (if t = p.t0 then p.initDerOf name else none) = none := by
    rcases hsp with h | h <;> simp [h]
  unfold derAt
  simp only [hsp', hk]
  rcases hout with h | h
  · have : t ≠ h0 := ne_of_lt h
    simp only [this, if_false, findSeg_none_of_le_head h0 rest t hs (le_of_lt h)]
  · have : t ≠ h0 := ne_of_gt (h h0 (by simp))
    simp only [this, if_false, findSeg_none_of_last_lt (h0 :: rest) t h]

/-- **On the extracted results**: after `t0`, for `a < t ≤ b` with `(a, xa)`, `(b, xb)`
    consecutive knots of the extracted result, `der_at = (xb - xa) / (b - a)`. -/
theorem derAt_eq_results_quotient (p : Prob) (name : String) (v : SVar) (t : Rat)
    (pre post : Knots) (ka kb : Rat × Rat)
    (hv : p.svars.lookup (p.canon name).1 = some v) (ht : p.t0 < t)
    (hs : Sorted v.knots) (hm : v.mode ≤ 2) (hlen : v.times.length = v.xs.length)
    (hk : v.resultKnots (p.canon name).2 = pre ++ ka :: kb :: post)
    (h0 : p.t0 ≤ ka.1) (h1 : ka.1 < t) (h2 : t ≤ kb.1) :
    derAt p name t = .num ((kb.2 - ka.2) / (kb.1 - ka.1)) := by
  have hs' := sorted_resultKnots v (p.canon name).2 hs
  have htimes := resultKnots_times v (p.canon name).2 hlen
  have hpw := sorted_pairwise _ hs'
  rw [htimes] at hpw
  have hsplit : v.times = pre.map (·.1) ++ ka.1 :: kb.1 :: post.map (·.1) := by
    rw [← htimes, hk]; simp
  have hdk : p.derKnots name t = pre.map (·.1) ++ ka.1 :: kb.1 :: post.map (·.1) := by
    unfold Prob.derKnots Prob.timesOf
    simp only [not_le.2 ht, if_false, hv, hsplit]
  have hab : ka.1 < kb.1 := by
    have := Sorted.append_right (hk ▸ hs')
    exact this.1
  rw [derAt_backward_difference p name t _ _ ka.1 kb.1 (Or.inl (ne_of_gt ht)) hdk (hsplit ▸ hpw) h1 h2,
    stateAt_decision_variable p name v _ false true hv,
    stateAt_decision_variable p name v _ false true hv,
    svStateAt_at_knot p.t0 v _ true hs hm hlen kb (by rw [hk]; simp) (le_trans h0 (le_of_lt hab)),
    svStateAt_at_knot p.t0 v _ true hs hm hlen ka (by rw [hk]; simp) h0]
  rfl

/-! ## `states_in` -/

/-- **Structure of `states_in`**: (optional start point) ++ history knots in the window ++ knots of
    the extracted result in the window ++ (optional end point); an end point is added exactly when
    it is not one of the listed knots and then carries the `state_at` value there. -/
theorem statesTimesIn_spec (p : Prob) (name : String) (v : SVar) (a b : Rat) (ks : Knots)
    (hv : p.svars.lookup (p.canon name).1 = some v)
    (h : statesTimesIn p name (some a) (some b) = some ks) :
    ∃ hist x0 xf, windowHist v (p.canon name).2 a (v.times.headD 0) = some hist ∧
      ks = x0 ++ (inWindow a b hist ++ inWindow a b (v.resultKnots (p.canon name).2)) ++ xf ∧
      EndOK p name (inWindow a b hist ++ inWindow a b (v.resultKnots (p.canon name).2)) a x0 ∧
      EndOK p name (inWindow a b hist ++ inWindow a b (v.resultKnots (p.canon name).2)) b xf := by
  have htimes : p.timesOf name = v.times := by simp [Prob.timesOf, hv]
  unfold statesTimesIn at h
  simp only [hv, htimes, Option.getD_some, state_eq_resultKnots,
    Option.bind_some, bind, List.headD_eq_head?_getD] at h
  simp only [List.headD_eq_head?_getD]
  cases hh : windowHist v (p.canon name).2 a (v.times.head?.getD 0) with
  | none => simp [hh] at h
  | some hist =>
    simp only [hh, Option.bind_some] at h
    cases h0 : endKnot p name (inWindow a b hist ++ inWindow a b (v.resultKnots (p.canon name).2)) a with
    | none => simp [h0] at h
    | some x0 =>
      simp only [h0, Option.bind_some] at h
      cases hf : endKnot p name (inWindow a b hist ++ inWindow a b (v.resultKnots (p.canon name).2)) b with
      | none => simp [hf] at h
      | some xf =>
        simp only [hf, Option.bind_some, Option.some.injEq] at h
        exact ⟨hist, x0, xf, rfl, h.symm, endKnot_spec _ _ _ _ _ h0, endKnot_spec _ _ _ _ _ hf⟩

/-- **The states in a window are exactly the knots in it**: between the end points `states_in`
    lists the history knots (before `t0`, last history entry dropped) and the knots of the
    extracted result with `a ≤ t ≤ b` — all of them and nothing else. -/
theorem statesIn_knots_exact (a b : Rat) (hist res : Knots) (k : Rat × Rat) :
    k ∈ inWindow a b hist ++ inWindow a b res ↔ (k ∈ hist ∨ k ∈ res) ∧ a ≤ k.1 ∧ k.1 ≤ b := by
  rw [List.mem_append, mem_inWindow, mem_inWindow]
  tauto

/-- **Each listed knot carries the `state_at` value of its time stamp** (history values before
    `t0`, extracted results from `t0` on), with the alias sign. -/
theorem statesIn_values_eq_stateAt (p : Prob) (name : String) (v : SVar) (a b first : Rat)
    (hist : Knots) (hv : p.svars.lookup (p.canon name).1 = some v)
    (hw : windowHist v (p.canon name).2 a first = some hist)
    (hs : Sorted v.knots) (hm : v.mode ≤ 2) (hlen : v.times.length = v.xs.length)
    (h0 : ∀ t ∈ v.times, p.t0 ≤ t)
    (hh : ∀ h, v.hist = some h → Sorted h ∧ ∀ k ∈ h.dropLast, k.1 < p.t0)
    (k : Rat × Rat)
    (hk : k ∈ inWindow a b hist ++ inWindow a b (v.resultKnots (p.canon name).2)) :
    stateAt p name k.1 false true = .num k.2 := by
  rw [stateAt_decision_variable p name v _ false true hv]
  rcases List.mem_append.1 hk with hk | hk
  · have hk' := ((mem_inWindow a b hist k).1 hk).1
    unfold windowHist at hw
    by_cases ha : a < first
    · simp only [ha, if_true] at hw
      cases hhist : v.hist with
      | none => simp [hhist] at hw
      | some h =>
        simp only [hhist, Option.some.injEq] at hw
        subst hw
        obtain ⟨hsorted, hbefore⟩ := hh h hhist
        obtain ⟨k', hk'm, hk't⟩ := signedHist_dropLast_time _ h k hk'
        exact svStateAt_at_history_knot p.t0 v _ true h hhist hsorted hm k
          (signedHist_dropLast_mem _ h k hk') (hk't ▸ hbefore k' hk'm)
    · simp only [ha, if_false, Option.some.injEq] at hw
      subst hw
      cases hk'
  · have hk' := ((mem_inWindow a b _ k).1 hk).1
    have ht : k.1 ∈ v.times := by
      rw [← resultKnots_times v (p.canon name).2 hlen]
      exact List.mem_map.2 ⟨k, hk', rfl⟩
    exact svStateAt_at_knot p.t0 v _ true hs hm hlen k hk' (h0 _ ht)

/-! ## `integral` -/

/-- the explicit sum: `Σ_j ½ (x_j + x_{j+1}) (t_{j+1} - t_j)` over consecutive knots -/
theorem trapz_cons_cons (a b : Rat × Rat) (rest : Knots) :
    trapz (a :: b :: rest) = (a.2 + b.2) / 2 * (b.1 - a.1) + trapz (b :: rest) := rfl

theorem trapz_single (a : Rat × Rat) : trapz [a] = 0 := rfl

/-- **Additivity over a knot**: the trapezoid sum over a knot list splits at any of its knots. -/
theorem trapz_append (l1 : Knots) (k : Rat × Rat) (l2 : Knots) :
    trapz (l1 ++ k :: l2) = trapz (l1 ++ [k]) + trapz (k :: l2) := by
  induction l1 with
  | nil => simp [trapz]
  | cons x l1 ih =>
    cases l1 with
    | nil => simp [trapz]
    | cons y l1 =>
      simp only [List.cons_append] at ih ⊢
      rw [trapz_cons_cons, trapz_cons_cons, ih]
      ring

/-- **Refinement in linear mode**: inserting the linearly interpolated point of a segment does
    not change the trapezoid sum (so in linear mode the integral is additive over *any*
    intermediate time, and windows may be split at non-knots). -/
theorem trapz_insert_linear (a fa b fb t : Rat) (rest : Knots) (hab : a ≠ b) :
    trapz ((a, fa) :: (t, fa + (fb - fa) / (b - a) * (t - a)) :: (b, fb) :: rest)
      = trapz ((a, fa) :: (b, fb) :: rest) := by
  have hba : b - a ≠ 0 := sub_ne_zero.2 (Ne.symm hab)
  simp only [trapz_cons_cons]
  field_simp
  ring

/-- **Additivity of `integral` over a knot**: for `a ≤ b ≤ c` with `b` a time stamp of the
    variable (or of its history), `integral(a, c) = integral(a, b) + integral(b, c)` — in every
    interpolation mode, for windows reaching into the history or beyond the horizon. -/
theorem integral_additive_at_knot (p : Prob) (name : String) (v : SVar) (a b c : Rat)
    (ia ib ic : Rat) (hist : Knots) (kb : Rat × Rat)
    (hv : p.svars.lookup (p.canon name).1 = some v)
    (hab : a ≤ b) (hbc : b ≤ c)
    (hw : windowHist v (p.canon name).2 a (v.times.headD 0) = some hist)
    (hH : ∀ k ∈ hist, k.1 < v.times.headD 0)
    (hsK : Sorted (hist ++ v.resultKnots (p.canon name).2))
    (hkb : kb ∈ hist ++ v.resultKnots (p.canon name).2) (hb : kb.1 = b)
    (h1 : integral p name (some a) (some b) = some ia)
    (h2 : integral p name (some b) (some c) = some ib)
    (h3 : integral p name (some a) (some c) = some ic) :
    ic = ia + ib := by
  -- unpack the three calls
  obtain ⟨k1, hk1, rfl⟩ := Option.map_eq_some_iff.1 h1
  obtain ⟨k2, hk2, rfl⟩ := Option.map_eq_some_iff.1 h2
  obtain ⟨k3, hk3, rfl⟩ := Option.map_eq_some_iff.1 h3
  obtain ⟨hist1, x01, xf1, hw1, rfl, e01, ef1⟩ := statesTimesIn_spec p name v a b k1 hv hk1
  obtain ⟨hist2, x02, xf2, hw2, rfl, e02, ef2⟩ := statesTimesIn_spec p name v b c k2 hv hk2
  obtain ⟨hist3, x03, xf3, hw3, rfl, e03, ef3⟩ := statesTimesIn_spec p name v a c k3 hv hk3
  have e1 : hist1 = hist := Option.some.inj (hw1.symm.trans hw)
  have e3 : hist3 = hist := Option.some.inj (hw3.symm.trans hw)
  subst e1 e3
  -- the history the middle call sees contributes the same knots to its window
  have hmid : inWindow b c hist2 = inWindow b c hist3 := by
    unfold windowHist at hw hw2
    by_cases hbf : b < v.times.headD 0
    · have haf : a < v.times.headD 0 := lt_of_le_of_lt hab hbf
      rw [if_pos haf] at hw
      rw [if_pos hbf] at hw2
      rw [hw] at hw2
      exact congrArg _ (Option.some.inj hw2).symm
    · rw [if_neg hbf] at hw2
      have : hist2 = [] := (Option.some.inj hw2).symm
      rw [this, inWindow_eq_nil_of_lt b c hist3 (fun k hk => lt_of_lt_of_le (hH k hk) (not_lt.1 hbf))]
      rfl
  rw [hmid] at e02 ef2 ⊢
  simp only [← inWindow_append] at e01 ef1 e02 ef2 e03 ef3 ⊢
  obtain ⟨pre, post, s1, s2, s3⟩ :=
    inWindow_split a b c (hist3 ++ v.resultKnots (p.canon name).2) hsK hab hbc kb hkb hb
  -- end points
  have hx0 : x01 = x03 :=
    EndOK_unique p name _ _ a x01 x03
      (by rw [hasTime_inWindow a b a _ (le_refl a) hab, hasTime_inWindow a c a _ (le_refl a) (le_trans hab hbc)])
      e01 e03
  have hxf : xf2 = xf3 :=
    EndOK_unique p name _ _ c xf2 xf3
      (by rw [hasTime_inWindow b c c _ hbc (le_refl c), hasTime_inWindow a c c _ (le_trans hab hbc) (le_refl c)])
      ef2 ef3
  have hxf1 : xf1 = [] := by
    apply EndOK_of_hasTime p name _ b xf1 _ ef1
    rw [s1, ← hb]
    exact hasTime_of_mem _ kb (by simp)
  have hx02 : x02 = [] := by
    apply EndOK_of_hasTime p name _ b x02 _ e02
    rw [s2, ← hb]
    exact hasTime_of_mem _ kb (by simp)
  subst hx0 hxf hxf1 hx02
  rw [s1, s2, s3]
  have := trapz_append (x01 ++ pre) kb (post ++ xf2)
  simp only [List.append_assoc, List.nil_append, List.append_nil, List.cons_append] at this ⊢
  simpa using this

/-! ## `map_path_expression` -/

/-- **Stamp by stamp**: the initial evaluation followed by the map over the remaining steps is the
    expression evaluated at every collocation time stamp `i = 0 … n-1` on the environment of that
    stamp. -/
theorem mapPathExpression_stampwise (mp : MapProb) (e : Expr) (hn : 0 < mp.times.length) :
    mapPathExpression mp e = (List.range mp.times.length).map (fun i => e.eval (symAt mp i)) := by
  unfold mapPathExpression
  by_cases h : mp.times.length > 1
  · simp only [h, if_true]
    obtain ⟨n, hn'⟩ : ∃ n, mp.times.length = n + 1 := ⟨mp.times.length - 1, by omega⟩
    rw [hn', List.range_succ_eq_map]
    simp [List.map_map, Function.comp]
  · have : mp.times.length = 1 := by omega
    simp [this]

/-- a variable on the collocation grid enters with its extracted value at that stamp -/
theorem map_value_same_grid (cv : ColVar) (times : List Rat) (i : Nat)
    (h : cv.sv.times.length = times.length) :
    cv.valueAt times i = .num (cv.sv.results.getD i 0) := by
  rw [results_getD]
  simp [ColVar.valueAt, h]

/-- a variable on its own coarser grid enters with the interpolation (by its mode) of its
    extracted result at the collocation time — the value `state_at` returns there -/
theorem map_value_own_grid (cv : ColVar) (times : List Rat) (i : Nat) (t0 : Rat)
    (h : cv.sv.times.length ≠ times.length) (ht : t0 ≤ times.getD i 0) :
    cv.valueAt times i = svStateAt t0 cv.sv false (times.getD i 0) false true := by
  rw [svStateAt_eq_interp_results t0 cv.sv false _ true ht (Or.inl rfl), resultKnots_eq_scale,
    interpSym_scale]
  simp [ColVar.valueAt, h, sgn]

/-- the derivative symbol: the decoded dedicated initial derivative (differentiated states) or the
    history slope (other variables) at stamp 0, the backward difference quotient of the values
    afterwards -/
theorem map_der (cv : ColVar) (times : List Rat) :
    cv.derAt times 0 = (match cv.sv.initDer with
                        | some (nomD, xd) => .num (xd * nomD)
                        | none => .num cv.initDerConst)
    ∧ ∀ j, cv.derAt times (j + 1)
        = ((cv.valueAt times (j + 1)).sub (cv.valueAt times j)).divBy
            (times.getD (j + 1) 0 - times.getD j 0) := by
  constructor
  · unfold ColVar.derAt
    cases cv.sv.initDer with
    | none => rfl
    | some d => rfl
  · intro j; rfl

/-- time enters relative to `t0` at every stamp, the first included (finding F30 repaired) -/
theorem map_time_relative (mp : MapProb) (i : Nat) :
    symAt mp i .time = .num (mp.times.getD i 0 - mp.t0) := rfl

/-! ## constant inputs: `state_at` against `extract_results` -/

/-- at a time stamp the `state_at` value of a constant input (extrapolating) is the value
    `extract_results` reports for it: both interpolate the (signed) input series with the input's
    own interpolation method and the edge values as fills (finding F33 repaired) -/
theorem ciStateAt_eq_extracted (c : CIn) (neg : Bool) (t : Rat) (hs : Sorted c.series)
    (hm : c.mode ≤ 2) (hne : c.series ≠ []) :
    ciStateAt c neg t true = ofOut (ciExtracted c neg t) := by
  unfold ciStateAt ciExtracted
  simp only [if_true]
  have hs' : Sorted (signedHist neg c.series) := by
    rw [signedHist_eq_scale]; exact sorted_scaleKnots _ _ hs
  have hne' : signedHist neg c.series ≠ [] := by
    rw [signedHist_eq_scale]; intro h; apply hne; simpa [scaleKnots] using h
  have := C19.interp_scalar_early_exit_agrees c.mode hm (signedHist neg c.series) hs'
    (finFill (firstVal (signedHist neg c.series))) (finFill (lastVal (signedHist neg c.series))) t hne'
  simpa [signedHist] using congrArg ofOut this

/-! ## totality: when the accessors are defined -/

/-- **`state_at` with `extrapolate=True` never raises and never returns NaN** for a variable of the
    decision vector (non-empty grid and history, valid mode): it is always a number — so the end
    points `states_in` / `integral` / `der_at` ask for always exist. -/
theorem svStateAt_num (t0 : Rat) (v : SVar) (neg : Bool) (t : Rat)
    (hm : v.mode ≤ 2) (hne : v.knots ≠ []) (hh : ∀ h, v.hist = some h → h ≠ []) :
    ∃ q, svStateAt t0 v neg t false true = .num q := by
  by_cases ht : t < t0
  · cases hhist : v.hist with
    | none =>
      exact ⟨_, (svStateAt_before_t0_no_history t0 v neg t ht hhist).1⟩
    | some h =>
      rw [svStateAt_before_t0_history t0 v neg t true h ht hhist]
      simp only [if_true]
      have hne' : signedHist neg h ≠ [] := by
        rw [signedHist_eq_scale]; intro e; apply hh h hhist; simpa [scaleKnots] using e
      exact interpScalar_finite v.mode hm _ hne' _ _ t
  · rw [svStateAt_eq_interp_results t0 v neg t true (not_lt.1 ht) (Or.inl rfl)]
    have hne' : v.resultKnots neg ≠ [] := by
      rw [resultKnots_eq_scale]; intro e; apply hne; simpa [scaleKnots] using e
    exact interpSym_finite v.mode hm _ hne' t


/-- **`states_in` / `integral` are defined** whenever the variable is in the decision vector and
    the history is available when the window starts before the first time stamp: they raise in no
    other case (in particular not for windows without time stamps — finding F31 repaired). -/
theorem statesTimesIn_defined (p : Prob) (name : String) (v : SVar) (a b : Rat) (hist : Knots)
    (hv : p.svars.lookup (p.canon name).1 = some v)
    (hw : windowHist v (p.canon name).2 a (v.times.headD 0) = some hist)
    (hm : v.mode ≤ 2) (hne : v.knots ≠ []) (hh : ∀ h, v.hist = some h → h ≠ []) :
    ∃ ks, statesTimesIn p name (some a) (some b) = some ks := by
  have htimes : p.timesOf name = v.times := by simp [Prob.timesOf, hv]
  have hend : ∀ inner t, ∃ x, endKnot p name inner t = some x := by
    intro inner t
    unfold endKnot
    by_cases h : hasTime inner t = true
    · exact ⟨[], by simp [h]⟩
    · obtain ⟨q, hq⟩ := svStateAt_num p.t0 v (p.canon name).2 t hm hne hh
      refine ⟨[(t, q)], ?_⟩
      simp only [h]
      unfold endPoint
      rw [stateAt_decision_variable p name v t false true hv, hq]
      rfl
  unfold statesTimesIn
  simp only [hv, htimes, Option.getD_some, Option.bind_some, bind, hw]
  obtain ⟨x0, h0⟩ := hend (inWindow a b hist ++ inWindow a b
    (v.times.zip (v.xs.map (fun x => x * v.nominal * sgn (p.canon name).2)))) a
  obtain ⟨xf, hf⟩ := hend (inWindow a b hist ++ inWindow a b
    (v.times.zip (v.xs.map (fun x => x * v.nominal * sgn (p.canon name).2)))) b
  exact ⟨_, by rw [h0, hf]; rfl⟩

/-- the two cases in which they do raise -/
theorem statesTimesIn_raises (p : Prob) (name : String) (a b : Rat) :
    (p.svars.lookup (p.canon name).1 = none → statesTimesIn p name (some a) (some b) = none) ∧
    (∀ v, p.svars.lookup (p.canon name).1 = some v → a < v.times.headD 0 → v.hist = none →
        statesTimesIn p name (some a) (some b) = none) := by
  constructor
  · intro h
    simp [statesTimesIn, h]
  · intro v hv ha hh
    have htimes : p.timesOf name = v.times := by simp [Prob.timesOf, hv]
    have hw : windowHist v (p.canon name).2 a (v.times.headD 0) = none := by
      unfold windowHist
      rw [if_pos ha, hh]
    unfold statesTimesIn
    simp only [hv, htimes, Option.getD_some, Option.bind_some, bind, hw, Option.bind_none]

/-! ## aliases at the accessor level; `extract_results` of constant inputs -/

/-- **A negated alias is transparent for `state_at`**: whatever kind of variable the canonical name is
    (decision vector, constant input, parameter, unknown), at every time (also before `t0`, with or
    without history), for both `scaled` and `extrapolate` flags, the value through the negated alias is
    the negation of the value through a positive name of the same variable; NaN and exceptions coincide. -/
theorem stateAt_negated_alias (p : Prob) (n m cn : String) (t : Rat) (scaled extrap : Bool)
    (hn : p.canon n = (cn, false)) (hm : p.canon m = (cn, true)) :
    stateAt p m t scaled extrap = (stateAt p n t scaled extrap).neg := by
  unfold stateAt
  simp only [hn, hm]
  cases p.svars.lookup cn with
  | some v => simp [svStateAt, applySign]
  | none =>
    cases p.cins.lookup cn with
    | some ci => exact ciStateAt_neg ci t extrap
    | none =>
      cases p.pars.lookup cn with
      | some q => simp [sgn, Res.neg, Res.map]
      | none => rfl

/-- **`extract_results` of a constant input is `state_at` at every time stamp** (finding F33 repaired):
    the array the de-scaling loop of `extract_states` stores (`ciResults`, the array form of `interpolate`
    with the input's own method and its edge values as fills) holds, entry by entry, the value
    `state_at(input, t)` returns at the time stamps `ts` it is evaluated on — for any `ts`, on or off the
    input's own stamps. -/
theorem ciResults_eq_stateAt (c : CIn) (ts : List Rat) (xs : List XVal) (hs : Sorted c.series)
    (hm : c.mode ≤ 2) (hne : c.series ≠ []) (h : ciResults c ts = some xs) :
    xs.map (fun x => ofOut (.val x)) = ts.map (fun t => ciStateAt c false t true) := by
  unfold ciResults at h
  rw [C19.interp_array_early_exit_agrees c.mode hm c.series hs hne] at h
  have h2 := sequence_eq_some _ _ h
  have h3 := congrArg (List.map ofOut) h2
  rw [List.map_map, List.map_map] at h3
  rw [show (fun x => ofOut (Out.val x)) = ofOut ∘ Out.val from rfl, ← h3]
  apply List.map_congr_left
  intro t _
  rw [ciStateAt_eq_extracted c false t hs hm hne]
  simp [ciExtracted]

/-- … and the array is always defined (never raises, never NaN) under the same hypotheses -/
theorem ciResults_defined (c : CIn) (ts : List Rat) (hs : Sorted c.series) (hm : c.mode ≤ 2)
    (hne : c.series ≠ []) : ∃ qs : List Rat, ciResults c ts = some (qs.map XVal.fin) := by
  unfold ciResults
  rw [C19.interp_array_early_exit_agrees c.mode hm c.series hs hne]
  induction ts with
  | nil => exact ⟨[], rfl⟩
  | cons t ts ih =>
    obtain ⟨qs, hq⟩ := ih
    obtain ⟨q, hq0⟩ := interpCore_finite c.mode hm c.series hne (firstVal c.series) (lastVal c.series) t
    exact ⟨q :: qs, by simp [List.map_cons, sequence, hq0, hq]⟩

/-! ## Non-vacuity: a concrete problem satisfying the hypotheses used above -/

/-- state `x`: nominal 10, own stamps 3, 4, 5½, raw entries 1, 2, 4, linear mode, a 3-point history
    ending at t0 = 3, dedicated initial derivative (nominal 5, entry 7) -/
def exV : SVar := ⟨10, [3, 4, 11/2], [1, 2, 4], 0, some [(0, 3), (1, 2), (3, 1)], some (5, 7)⟩

/-- `y = -x`, a constant input `c` (piecewise constant) and a parameter `p` -/
def exP : Prob :=
  ⟨3, [3, 4, 11/2], [("y", ("x", true))], [("x", exV)], [("c", ⟨[(3, 1), (4, 2)], 1⟩)], [("p", 2)]⟩

example : Sorted exV.knots ∧ exV.mode ≤ 2 ∧ exV.times.length = exV.xs.length ∧ exV.nominal ≠ 0 := by
  decide +kernel
example : exP.svars.lookup (exP.canon "y").1 = some exV ∧ (exP.canon "y").2 = true := by decide +kernel
example : exV.resultKnots true = [(3, -10), (4, -20), (11/2, -40)] := by decide +kernel
-- between knots, through the negated alias: -(10 + 10·½) = -15
example : stateAt exP "y" (7/2) false true = .num (-15) := by decide +kernel
example : stateAt exP "y" (7/2) true true = .num (-3/2) := by decide +kernel
-- before t0: history (linear), through the alias; left of the history: first value / NaN
example : stateAt exP "y" 2 false true = .num (-3/2) := by decide +kernel
example : stateAt exP "y" (-1) false false = .nan := by decide +kernel
-- outside the horizon without extrapolation
example : stateAt exP "x" 6 false false = .raise := by decide +kernel
-- fall-backs and unknown names
example : stateAt exP "c" (7/2) false true = .num 1 ∧ stateAt exP "p" 0 false true = .num 2
    ∧ stateAt exP "q" 0 false true = .raise := by decide +kernel
-- der_at: dedicated initial derivative at t0; backward difference afterwards and in the history
example : derAt exP "y" 3 = .num (-35) ∧ derAt exP "x" 4 = .num 10 ∧ derAt exP "x" 5 = .num (40/3)
    ∧ derAt exP "x" 1 = .num (-1) ∧ derAt exP "x" 0 = .num 0 ∧ derAt exP "x" 6 = .raise := by decide +kernel
-- states_in / integral: window reaching into the history and beyond the end
example : statesTimesIn exP "y" (some (-1)) (some 9)
    = some [(-1, -3), (0, -3), (1, -2), (3, -10), (4, -20), (11/2, -40), (9, -40)] := by decide +kernel
example : statesTimesIn exP "x" (some (7/2)) (some (15/4)) = some [(7/2, 15), (15/4, 35/2)] := by decide +kernel
example : integral exP "x" none none = some 60 := by decide +kernel
example : statesTimesIn exP "c" none none = none := by decide +kernel
-- additivity over the knots t = 4 and t = t0 = 3 (the latter with a window reaching into the history)
example : integral exP "x" (some 3) (some 4) = some 15 ∧ integral exP "x" (some 4) (some (11/2)) = some 45
    ∧ integral exP "x" (some 1) (some 3) = some 12 ∧ integral exP "x" (some 1) (some 4) = some 27 := by
  decide +kernel
example : windowHist exV false 1 3 = some [(0, 3), (1, 2)]
    ∧ Sorted ([(0, 3), (1, 2)] ++ exV.resultKnots false) := by decide +kernel

-- negated alias of a state, of a constant input and of a parameter (`stateAt_negated_alias`)
def exP2 : Prob :=
  ⟨3, [3, 4, 11/2], [("y", ("x", true)), ("nc", ("c", true)), ("np", ("p", true))], [("x", exV)],
   [("c", ⟨[(3, 1), (4, 2)], 1⟩)], [("p", 2)]⟩
example : exP2.canon "x" = ("x", false) ∧ exP2.canon "y" = ("x", true) ∧ exP2.canon "c" = ("c", false)
    ∧ exP2.canon "nc" = ("c", true) := by decide +kernel
example : stateAt exP2 "nc" (7/2) false true = .num (-1) ∧ stateAt exP2 "np" 0 false true = .num (-2)
    ∧ stateAt exP2 "y" 2 true true = .num (-3/20) ∧ stateAt exP2 "nc" 5 false false = .nan := by decide +kernel
-- extract_results of the constant input on the collocation grid (off its own stamps): forward fill
example : ciResults ⟨[(3, 1), (4, 2)], 1⟩ [3, 7/2, 4, 11/2] = some [XVal.fin 1, XVal.fin 1, XVal.fin 2, XVal.fin 2] := by
  decide +kernel
example : Sorted ([(3, 1), (4, 2)] : Knots) := by decide

def exMP : MapProb :=
  ⟨3, [3, 4, 11/2], [⟨exV, 0⟩, ⟨⟨4, [3, 11/2], [1, 3], 1, none, none⟩, 2⟩], [⟨[(3, 1), (4, 2)], 1⟩], [], [2]⟩

-- x·p + der(u) + time, stamp by stamp
example : mapPathExpression exMP ⟨0, [(1, [.state 0, .par 0]), (1, [.der 1]), (1, [.time])]⟩
    = [.num 22, .num 41, .num (527/6)] := by decide +kernel

end RtcVerif.C15
