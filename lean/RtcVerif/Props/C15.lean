import RtcVerif.Model.C15
/-! # C15 — trajectory accessors (work in progress: core theorems follow) -/
namespace RtcVerif.C15
open RtcVerif RtcVerif.Interp

/-- `integral` is the trapezoid rule over exactly the knots `states_in` returns -/
theorem integral_eq_trapz (p : Prob) (name : String) (a b : Option Rat) :
    integral p name a b = (statesTimesIn p name a b).map trapz := rfl

end RtcVerif.C15
