import RtcVerif.Model.C16
import RtcVerif.Proofs.C16
import RtcVerif.Proofs.C15
import RtcVerif.Proofs.C15Fin
import RtcVerif.Props.C15
/-!
# C16 — delayed feedback equals the delayed expression, history included

Simulation: buffer invariant by induction over the steps and the interpolation weight.
Optimisation: the delay rows vanish iff the delayed variable equals the interpolation of
(history of the expression ++ expression on the trajectory) at `t_k - tau_k`; the
incomplete-history rule.
-/
namespace RtcVerif.C16
open RtcVerif RtcVerif.Interp RtcVerif.C15

/-! ## simulation -/

theorem bufLen_pos (tau dt : Rat) (hdt : 0 < dt) : 1 ≤ bufLen tau dt := by
  unfold bufLen
  by_cases h : tau > 0
  · simp only [h, if_true]
    exact (ceilNat_bounds (tau / dt) (div_pos h hdt)).2.2
  · simp [h]

/-- the interpolation weight: `0 ≤ w < 1` for a positive delay, `w = 1` (no delay) for `tau = 0` -/
theorem weight_range (tau dt : Rat) (hdt : 0 < dt) (htau : 0 ≤ tau) :
    (0 < tau → 0 ≤ weight tau dt ∧ weight tau dt < 1) ∧ (tau = 0 → weight tau dt = 1) := by
  constructor
  · intro h
    have hb := ceilNat_bounds (tau / dt) (div_pos h hdt)
    unfold weight bufLen
    simp only [h, if_true]
    constructor <;> linarith [hb.1, hb.2.1]
  · intro h
    unfold weight bufLen
    simp [h]

/-- **The delayed state is the linear interpolation of the expression at `t - tau`**: with
    `a = t_j - n·dt` and `b = a + dt` the two grid points bracketing the query time `t_j - tau`
    (`a ≤ t_j - tau ≤ b`), `w·f_b + (1-w)·f_a` is the chord value
    `f_a + (f_b - f_a)/(b - a)·((t_j - tau) - a)` — for integer and non-integer multiples of `dt`. -/
theorem weight_is_linear_interpolation (tau dt tj fa fb : Rat) (hdt : 0 < dt) (htau : 0 ≤ tau) :
    let n : Rat := (bufLen tau dt : Nat)
    let a := tj - n * dt
    let b := a + dt
    weight tau dt * fb + (1 - weight tau dt) * fa = fa + (fb - fa) / (b - a) * ((tj - tau) - a)
    ∧ a ≤ tj - tau ∧ tj - tau ≤ b := by
  intro n a b
  have hne : dt ≠ 0 := ne_of_gt hdt
  have hw : (tj - tau) - a = weight tau dt * dt := by
    simp only [a, n, weight]
    field_simp
    ring
  have hba : b - a = dt := by simp [b]
  refine ⟨?_, ?_, ?_⟩
  · rw [hw, hba]
    field_simp
    ring
  · have : 0 ≤ weight tau dt := by
      rcases lt_or_eq_of_le htau with h | h
      · exact ((weight_range tau dt hdt htau).1 h).1
      · rw [(weight_range tau dt hdt htau).2 h.symm]; norm_num
    nlinarith
  · have : weight tau dt ≤ 1 := by
      rcases lt_or_eq_of_le htau with h | h
      · exact le_of_lt ((weight_range tau dt hdt htau).1 h).2
      · rw [(weight_range tau dt hdt htau).2 h.symm]
    have h2 : (tj - tau) - a ≤ dt := by rw [hw]; nlinarith
    linarith

/-- **Buffer invariant** (by induction over the steps): after the steps `ds` buffer entry `k`
    holds the expression value `k` steps back, the `t0` value before the start. -/
theorem simRun_buf (tau dt d0 : Rat) (ds : List Rat) (hn : 1 ≤ bufLen tau dt) :
    (simRun tau dt d0 ds).buf = bufSpec (bufLen tau dt) d0 ds := by
  induction ds using List.reverseRecOn with
  | nil => simp [simRun, simInit, bufSpec_nil]
  | append_singleton ds x ih =>
    obtain ⟨m, hm⟩ : ∃ m, bufLen tau dt = m + 1 := ⟨bufLen tau dt - 1, by omega⟩
    unfold simRun at ih ⊢
    rw [List.foldl_append]
    simp only [List.foldl_cons, List.foldl_nil, simStep]
    rw [ih, hm, bufSpec_dropLast, bufSpec_step]

/-- **Delayed state after a step**: `y = w·D̄(j-(n-1)) + (1-w)·D̄(j-n)` with `j` the step count. -/
theorem simRun_y (tau dt d0 x : Rat) (ds : List Rat) (hn : 1 ≤ bufLen tau dt) :
    (simRun tau dt d0 (ds ++ [x])).y
      = weight tau dt * dbar d0 (ds ++ [x]) ((ds.length : Int) + 1 - ((bufLen tau dt : Nat) - 1 : Int))
        + (1 - weight tau dt) * dbar d0 (ds ++ [x]) ((ds.length : Int) + 1 - (bufLen tau dt : Nat)) := by
  obtain ⟨m, hm⟩ : ∃ m, bufLen tau dt = m + 1 := ⟨bufLen tau dt - 1, by omega⟩
  have hb := simRun_buf tau dt d0 ds hn
  unfold simRun at hb ⊢
  rw [List.foldl_append]
  simp only [List.foldl_cons, List.foldl_nil, simStep]
  rw [hb, hm, bufSpec_dropLast, bufSpec_step, bufSpec_getLastD, bufSpec_getLastD]
  rw [dbar_append_of_le d0 x ds ((ds.length : Int) + 1 - ((m + 1 : Nat) : Int)) (by push_cast; omega)]
  congr 2
  · congr 1
    simp only [List.length_append, List.length_singleton]
    push_cast
    ring
  · congr 1
    push_cast
    ring

/-- **Combined simulation statement**: after step `j = ds.length + 1` the delayed state equals the
    chord interpolation of the (backwards extended) expression between the two step-grid points
    bracketing `t_j - tau`. -/
theorem sim_delay_relation (tau dt d0 x t0 : Rat) (ds : List Rat) (hdt : 0 < dt) (htau : 0 ≤ tau) :
    let j : Int := (ds.length : Int) + 1
    let n : Nat := bufLen tau dt
    let tj : Rat := t0 + (j : Rat) * dt
    let a : Rat := tj - (n : Rat) * dt
    let fa := dbar d0 (ds ++ [x]) (j - n)
    let fb := dbar d0 (ds ++ [x]) (j - ((n : Int) - 1))
    (simRun tau dt d0 (ds ++ [x])).y = fa + (fb - fa) / ((a + dt) - a) * ((tj - tau) - a)
    ∧ a ≤ tj - tau ∧ tj - tau ≤ a + dt := by
  intro j n tj a fa fb
  have hn := bufLen_pos tau dt hdt
  have h := weight_is_linear_interpolation tau dt tj fa fb hdt htau
  simp only at h
  refine ⟨?_, h.2.1, h.2.2⟩
  rw [← h.1, simRun_y tau dt d0 x ds hn]

/-- **Zero delay**: `y(t) = D(t)` at every step. -/
theorem sim_zero_delay (dt d0 x : Rat) (ds : List Rat) :
    (simRun 0 dt d0 (ds ++ [x])).y = x := by
  have hn : 1 ≤ bufLen 0 dt := by simp [bufLen]
  rw [simRun_y 0 dt d0 x ds hn]
  have hb : bufLen 0 dt = 1 := by simp [bufLen]
  have hw : weight 0 dt = 1 := by simp [weight, bufLen]
  rw [hw, hb]
  simp only [Nat.cast_one, sub_self, sub_zero, one_mul, zero_mul, add_zero]
  exact dbar_append_last d0 x ds

/-! ## optimisation -/

/-- **A delay row vanishes iff the delayed variable equals the delayed expression** (the row is
    the difference divided by a non-zero scaling). -/
theorem row_zero_iff (d : DelayProb) (k : Nat) (y v : Rat) (hn : d.nominal ≠ 0)
    (hy : d.yAt k = .num y) (hv : d.delayedAt k = .num v) :
    ((d.yAt k).sub (d.delayedAt k)).divBy d.nominal = .num 0 ↔ y = v := by
  rw [hy, hv]
  simp only [Res.sub, Res.map2, Res.divBy, Res.map, Res.num.injEq]
  constructor
  · intro h
    have := (div_eq_zero_iff.1 h).resolve_right hn
    linarith
  · intro h; simp [h]

/-- the rows are exactly these quotients, one per collocation time stamp (the first included) -/
theorem rows_spec (d : DelayProb) :
    d.rows.length = d.ts.length ∧
    ∀ k, k < d.ts.length →
      d.rows.getD k .raise = ((d.yAt k).sub (d.delayedAt k)).divBy d.nominal := by
  constructor
  · simp [DelayProb.rows]
  · intro k hk
    simp [DelayProb.rows, List.getD_eq_getElem?_getD, hk]

/-- what the delayed value is: the interpolation — by the interpolation mode of the receiving
    variable — of the knots `outKnots` at `t_k - tau_k` (the symbolic interpolant: clamping) -/
theorem delayedAt_spec (d : DelayProb) (k : Nat) :
    d.delayedAt k = ofOut (interpSym d.outMode d.outKnots (d.ts.getD k 0 - resRat (d.tauAt k))) := rfl

/-- **Incomplete-history rule**: when the needed range starts before the first history stamp
    (`hist_start_ind < 0`) or contains a NaN, the history is dropped: the delayed value is
    interpolated from the trajectory alone … -/
theorem outKnots_incomplete (d : DelayProb) (vs : List Rat) (hi : d.incomplete = true)
    (htraj : d.trajD = vs.map Res.num) : d.outKnots = d.ts.zip vs := by
  simp [DelayProb.outKnots, hi, htraj, resKnots_num]

/-- … so that a query before `t0` returns the expression's `t0` value (constant extrapolation
    backwards; a warning is logged), in every interpolation mode. -/
theorem incomplete_extrapolates_t0 (d : DelayProb) (vs : List Rat) (k : Nat)
    (hi : d.incomplete = true) (htraj : d.trajD = vs.map Res.num)
    (hs : Sorted (d.ts.zip vs)) (hne : d.ts.zip vs ≠ []) (hm : d.outMode ≤ 2)
    (hq : d.ts.getD k 0 - resRat (d.tauAt k) < firstTime (d.ts.zip vs)) :
    d.delayedAt k = .num (firstVal (d.ts.zip vs)) := by
  rw [delayedAt_spec, outKnots_incomplete d vs hi htraj,
    (C19.interp_sym_clamps d.outMode hm _ hs hne _).1 hq]
  rfl

/-- **Complete history**: the knots are history ++ trajectory from the first needed knot on, and
    every history value from there on is a number (no NaN is ever interpolated). -/
theorem outKnots_complete (d : DelayProb) (hi : d.incomplete = false) :
    d.outKnots = resKnots ((d.hts ++ d.ts).drop d.histStart.toNat)
        ((d.histD ++ d.trajD).drop d.histStart.toNat)
    ∧ 0 ≤ d.histStart
    ∧ ∀ r ∈ d.histD.drop d.histStart.toNat, ∃ q, r = .num q := by
  unfold DelayProb.incomplete at hi
  simp only [Bool.or_eq_false_iff, decide_eq_false_iff_not, not_lt] at hi
  refine ⟨by simp [DelayProb.outKnots, DelayProb.incomplete, hi], hi.1, ?_⟩
  intro r hr
  have h2 := hi.2
  rw [List.any_eq_false] at h2
  have := h2 r hr
  cases r with
  | num q => exact ⟨q, rfl⟩
  | nan => simp [Res.toRat?] at this
  | raise => simp [Res.toRat?] at this

/-- **`hist_start_ind`** is the index of the last knot of `history times ++ collocation times`
    at or before the earliest query time (`-1` when there is none): everything up to it is `≤` the
    earliest query, everything after it is `>` (searchsorted + the "one earlier" correction). -/
theorem histStart_spec (d : DelayProb) (hs : (d.hts ++ d.ts).Pairwise (· < ·))
    (hlt : searchLeft (d.hts ++ d.ts) d.earliest < (d.hts ++ d.ts).length) :
    (∀ i : Nat, (i : Int) ≤ d.histStart → (d.hts ++ d.ts).getD i 0 ≤ d.earliest) ∧
    (∀ i : Nat, d.histStart < (i : Int) → i < (d.hts ++ d.ts).length →
        d.earliest < (d.hts ++ d.ts).getD i 0) := by
  have hsp := searchLeft_spec (d.hts ++ d.ts) d.earliest hs
  unfold DelayProb.histStart
  simp only
  by_cases heq : (d.hts ++ d.ts).getD (searchLeft (d.hts ++ d.ts) d.earliest) 0 = d.earliest
  · simp only [heq, ne_eq, not_true_eq_false, if_false]
    constructor
    · intro i hi
      rcases Nat.lt_or_ge i (searchLeft (d.hts ++ d.ts) d.earliest) with h | h
      · exact le_of_lt (hsp.1 i h)
      · have : i = searchLeft (d.hts ++ d.ts) d.earliest := by omega
        rw [this, heq]
    · intro i hi hlen
      have h1 : searchLeft (d.hts ++ d.ts) d.earliest < i := by omega
      have := pairwise_getD_lt _ hs _ i h1 hlen
      rw [heq] at this
      exact this
  · simp only [ne_eq, heq, not_false_eq_true, if_true]
    constructor
    · intro i hi
      exact le_of_lt (hsp.1 i (by omega))
    · intro i hi hlen
      have h1 : searchLeft (d.hts ++ d.ts) d.earliest ≤ i := by omega
      rcases Nat.lt_or_ge (searchLeft (d.hts ++ d.ts) d.earliest) i with h | h
      · have h2 := pairwise_getD_lt _ hs _ i h hlen
        have h3 := hsp.2 _ (le_refl _) hlt
        exact lt_of_le_of_lt h3 h2
      · have : i = searchLeft (d.hts ++ d.ts) d.earliest := by omega
        rw [this]
        exact lt_of_le_of_ne (hsp.2 _ (le_refl _) hlt) (Ne.symm heq)

/-- the earliest query time is a lower bound of every query time `t_k - tau_k`: in the complete
    case no query falls before the first kept knot, so nothing is extrapolated there -/
theorem earliest_le_query (d : DelayProb) (k : Nat) (hk : k < d.ts.length) :
    d.earliest ≤ d.ts.getD k 0 - resRat (d.tauAt k) := by
  unfold DelayProb.earliest
  apply minList_le
  exact List.mem_map.2 ⟨k, List.mem_range.2 hk, rfl⟩

/-- **Headline (optimisation)**: all delay rows vanish iff at *every* collocation time stamp the
    receiving variable equals the interpolation of `outKnots` (history of the expression ++
    expression on the trajectory, or the trajectory alone when the history is incomplete) at
    `t_k - tau_k`. -/
theorem rows_all_zero_iff (d : DelayProb) (hn : d.nominal ≠ 0)
    (hnum : ∀ k, k < d.ts.length → ∃ y v, d.yAt k = .num y ∧ d.delayedAt k = .num v) :
    (∀ k, k < d.ts.length → d.rows.getD k .raise = .num 0) ↔
    (∀ k, k < d.ts.length → d.yAt k = d.delayedAt k) := by
  constructor
  · intro h k hk
    obtain ⟨y, v, hy, hv⟩ := hnum k hk
    have := h k hk
    rw [(rows_spec d).2 k hk] at this
    rw [hy, hv, (row_zero_iff d k y v hn hy hv).1 this]
  · intro h k hk
    obtain ⟨y, v, hy, hv⟩ := hnum k hk
    rw [(rows_spec d).2 k hk]
    apply (row_zero_iff d k y v hn hy hv).2
    have := h k hk
    rw [hy, hv] at this
    exact Res.num.inj this

/-- the receiving variable enters with its extracted value at the stamp (alias sign applied) when
    it lives on the collocation grid -/
theorem yAt_same_grid (d : DelayProb) (k : Nat) (cv : ColVar) (hc : d.mp.cols[d.out]? = some cv)
    (hg : cv.sv.times.length = d.ts.length) :
    d.yAt k = .num (sgn d.outNeg * cv.sv.results.getD k 0) := by
  unfold DelayProb.yAt
  have : d.mp.cols.getD d.out ⟨⟨0, [], [], 0, none, none⟩, 0⟩ = cv := by
    simp [List.getD_eq_getElem?_getD, hc]
  rw [this, map_value_same_grid cv d.ts k hg, applySign_eq_scale]
  rfl

/-- the delayed value is always a number (the symbolic interpolant clamps; the kept knots are
    NaN-free) -/
theorem delayedAt_num (d : DelayProb) (k : Nat) (hm : d.outMode ≤ 2) (hne : d.outKnots ≠ []) :
    ∃ v, d.delayedAt k = .num v :=
  interpSym_finite d.outMode hm d.outKnots hne _

/-- **Headline, hypotheses discharged**: for a receiving variable on the collocation grid, a
    valid interpolation mode, a non-zero row scaling and at least one knot, the delay rows are all
    zero iff `y(t_k) = Interp mode outKnots (t_k - tau_k)` at every collocation time stamp. -/
theorem delay_rows_zero_iff_delayed (d : DelayProb) (cv : ColVar) (hn : d.nominal ≠ 0)
    (hc : d.mp.cols[d.out]? = some cv) (hg : cv.sv.times.length = d.ts.length)
    (hm : d.outMode ≤ 2) (hne : d.outKnots ≠ []) :
    (∀ k, k < d.ts.length → d.rows.getD k .raise = .num 0) ↔
    (∀ k, k < d.ts.length →
      Res.num (sgn d.outNeg * cv.sv.results.getD k 0)
        = ofOut (interpSym d.outMode d.outKnots (d.ts.getD k 0 - resRat (d.tauAt k)))) := by
  have hnum : ∀ k, k < d.ts.length → ∃ y v, d.yAt k = .num y ∧ d.delayedAt k = .num v := by
    intro k _
    obtain ⟨v, hv⟩ := delayedAt_num d k hm hne
    exact ⟨_, v, yAt_same_grid d k cv hc hg, hv⟩
  rw [rows_all_zero_iff d hn hnum]
  constructor
  · intro h k hk
    rw [← yAt_same_grid d k cv hc hg, ← delayedAt_spec]
    exact h k hk
  · intro h k hk
    rw [yAt_same_grid d k cv hc hg, delayedAt_spec]
    exact h k hk

/-- **History interpolation agrees with the interpolation model of C19** on NaN-free series: the
    values the delayed expression draws from a variable's history are `interpolate(t, times,
    values, nan, nan, mode)` — what `state_at(t < t0, extrapolate=False)` returns (C15). -/
theorem interpNaN_eq_interpCore (mode : Nat) (hm : mode ≤ 2) (ks : Knots) (hs : Sorted ks)
    (hne : ks ≠ []) (t : Rat) :
    interpNaN mode (numK ks) t = ofOut (interpCore mode ks nanFill nanFill t) := by
  rcases position ks hne t with h | ⟨pre, a, fa, b, fb, post, e, h1, h2⟩ | ⟨pre, a, fa, e, h1⟩
  · obtain ⟨⟨t0, f0⟩, rest, rfl⟩ := List.exists_cons_of_ne_nil hne
    have h' : t < t0 := by simpa [firstTime] using h
    rw [interpNaN_before mode (t0, f0) rest t h', C19.interp_left_fill mode hm t0 f0 rest _ _ t h']
    rfl
  · subst e
    rw [interpNaN_seg mode pre post a fa b fb t hs h1 h2]
    by_cases hta : t = a
    · subst hta
      simp only [if_true]
      rw [C19.interp_at_knot _ hs _ _ mode hm (t, fa) (by simp)]
      rfl
    · simp only [hta, if_false]
      have hlt : a < t := lt_of_le_of_ne h1 (Ne.symm hta)
      have hb := C19.interp_between pre post a fa b fb nanFill nanFill t hs hlt h2
      obtain rfl | rfl | rfl : mode = 0 ∨ mode = 1 ∨ mode = 2 := by omega
      · rw [hb.1]; rfl
      · rw [hb.2.1]; rfl
      · rw [hb.2.2]; rfl
  · subst e
    rw [interpNaN_last mode pre a fa t hs h1]
    by_cases hta : t = a
    · subst hta
      simp only [if_true]
      rw [C19.interp_at_knot _ hs _ _ mode hm (t, fa) (by simp)]
      rfl
    · simp only [hta, if_false]
      have hlt : lastTime (pre ++ [(a, fa)]) < t := by
        rw [lastTime_append_cons]
        simpa [lastTime] using lt_of_le_of_ne h1 (Ne.symm hta)
      rw [C19.interp_right_fill mode hm _ hs hne _ _ t hlt]
      rfl


/-- **The history the delay draws on is the history `state_at` reports**: on a NaN-free history
    series the value used for the delayed expression at a history stamp `t < t0` is
    `state_at(variable, t, extrapolate=False)` of C15. -/
theorem hist_value_is_state_at (t0 : Rat) (v : SVar) (h : Knots) (t : Rat) (hh : v.hist = some h)
    (hs : Sorted h) (hne : h ≠ []) (hm : v.mode ≤ 2) (ht : t < t0) :
    interpNaN v.mode (numK h) t = svStateAt t0 v false t false false := by
  rw [interpNaN_eq_interpCore v.mode hm h hs hne t,
    svStateAt_before_t0_history t0 v false t false h ht hh]
  simp only [signedHist, Bool.false_eq_true, if_false]
  rw [C19.interp_scalar_early_exit_agrees v.mode hm h hs nanFill nanFill t hne]

/-! ## the receiving variable named through an alias -/

/-- **The alias sign multiplies the receiving variable, not the row**: naming the receiving variable
    by a negated alias negates `x_in` only; the delayed value and the row scaling are untouched, so
    the row is `(-y - delayed) / nominal` and NOT `-(y - delayed) / nominal`. -/
theorem negated_alias_sign_on_target (d : DelayProb) (k : Nat) (hk : k < d.ts.length) :
    ({ d with outNeg := true } : DelayProb).yAt k = (({ d with outNeg := false } : DelayProb).yAt k).neg
    ∧ ({ d with outNeg := true } : DelayProb).delayedAt k = ({ d with outNeg := false } : DelayProb).delayedAt k
    ∧ ({ d with outNeg := true } : DelayProb).nominal = ({ d with outNeg := false } : DelayProb).nominal
    ∧ ({ d with outNeg := true } : DelayProb).rows.getD k .raise
        = (((({ d with outNeg := false } : DelayProb).yAt k).neg).sub
            (({ d with outNeg := false } : DelayProb).delayedAt k)).divBy ({ d with outNeg := false } : DelayProb).nominal := by
  refine ⟨rfl, rfl, rfl, ?_⟩
  rw [(rows_spec ({ d with outNeg := true } : DelayProb)).2 k hk]
  rfl

/-- **The row set does not depend on how the receiving variable is named**: if the decision vector
    also carries a column `j'` holding the negated values of the receiving column (same grid, nominal
    and interpolation mode: the value of a negated alias is `sign * canonical value`), then naming the
    receiving variable by that column with the opposite sign yields exactly the same delay rows. -/
theorem rows_invariant_negated_alias (d : DelayProb) (j' : Nat) (cv cv' : ColVar)
    (hc : d.mp.cols[d.out]? = some cv) (hc' : d.mp.cols[j']? = some cv')
    (ht : cv'.sv.times = cv.sv.times) (hn : cv'.sv.nominal = cv.sv.nominal)
    (hm : cv'.sv.mode = cv.sv.mode) (hx : cv'.sv.xs = cv.sv.xs.map (- ·)) :
    ({ d with out := j', outNeg := !d.outNeg } : DelayProb).rows = d.rows := by
  have e1 : d.mp.cols.getD d.out ⟨⟨0, [], [], 0, none, none⟩, 0⟩ = cv := by
    simp [List.getD_eq_getElem?_getD, hc]
  have e2 : d.mp.cols.getD j' ⟨⟨0, [], [], 0, none, none⟩, 0⟩ = cv' := by
    simp [List.getD_eq_getElem?_getD, hc']
  have hsg : sgn (!d.outNeg) = - sgn d.outNeg := by cases d.outNeg <;> simp [sgn]
  have hy : ∀ k, ({ d with out := j', outNeg := !d.outNeg } : DelayProb).yAt k = d.yAt k := by
    intro k
    show applySign (!d.outNeg) ((d.mp.cols.getD j' ⟨⟨0, [], [], 0, none, none⟩, 0⟩).valueAt d.ts k)
      = applySign d.outNeg ((d.mp.cols.getD d.out ⟨⟨0, [], [], 0, none, none⟩, 0⟩).valueAt d.ts k)
    rw [e1, e2, applySign_eq_scale, applySign_eq_scale, hsg]
    unfold ColVar.valueAt SVar.knots
    rw [ht, hn, hm, hx]
    by_cases h : cv.sv.times.length = d.ts.length
    · simp only [h, if_true, Res.scale_num, getD_map_neg]
      congr 1; ring
    · simp only [h, if_false]
      have hmap : cv.sv.xs.map (- ·) = cv.sv.xs.map ((-1 : Rat) * ·) := by
        apply List.map_congr_left; intro x _; ring
      rw [hmap, zip_map_scale, interpSym_scale, Res.scale_scale, Res.scale_scale, Res.scale_scale]
      congr 1; ring
  have hmode : ({ d with out := j', outNeg := !d.outNeg } : DelayProb).outMode = d.outMode := by
    show (d.mp.cols.getD j' ⟨⟨0, [], [], 0, none, none⟩, 0⟩).sv.mode
      = (d.mp.cols.getD d.out ⟨⟨0, [], [], 0, none, none⟩, 0⟩).sv.mode
    rw [e1, e2, hm]
  have hdel : ∀ k, ({ d with out := j', outNeg := !d.outNeg } : DelayProb).delayedAt k = d.delayedAt k := by
    intro k
    rw [delayedAt_spec, delayedAt_spec, hmode]
    rfl
  unfold DelayProb.rows
  show (List.range d.ts.length).map _ = _
  apply List.map_congr_left
  intro k _
  rw [hy k, hdel k]
  rfl

/-! ## Non-vacuity -/

/-- one state `x` (nominal 2) and the receiving algebraic variable `y` on the grid 0, 1, 2;
    `y = delay(3·x + 1, tau)`, history of `x` on -2, -1, 0 -/
def exD (tau : Rat) (hx : RKnots) : DelayProb :=
  { mp := ⟨0, [0, 1, 2],
           [⟨⟨2, [0, 1, 2], [1, 2, 4], 0, none, some (1, 0)⟩, 0⟩, ⟨⟨1, [0, 1, 2], [5, 6, 7], 0, none, none⟩, 0⟩],
           [], [], []⟩,
    hists := [some hx, none],
    allHistTimes := [hx.map (·.1)],
    expr := ⟨1, [(3, [.state 0])]⟩, out := 1, outNeg := false, tau := ⟨tau, []⟩ }

-- complete history, tau = 3/2: queries -3/2, -1/2, 1/2
example : (exD (3/2) [(-2, .num 1), (-1, .num 3), (0, .num 2)]).incomplete = false
    ∧ (exD (3/2) [(-2, .num 1), (-1, .num 3), (0, .num 2)]).histStart = 0
    ∧ (exD (3/2) [(-2, .num 1), (-1, .num 3), (0, .num 2)]).trajD = [.num 7, .num 13, .num 25]
    ∧ (exD (3/2) [(-2, .num 1), (-1, .num 3), (0, .num 2)]).histD = [.num 4, .num 10]
    ∧ (List.range 3).map (exD (3/2) [(-2, .num 1), (-1, .num 3), (0, .num 2)]).delayedAt
        = [.num 7, .num (17/2), .num 10] := by decide +kernel
-- NaN in the needed range: history dropped, t0 value extrapolated backwards
example : (exD (3/2) [(-2, .num 1), (-1, .nan), (0, .num 2)]).incomplete = true
    ∧ (List.range 3).map (exD (3/2) [(-2, .num 1), (-1, .nan), (0, .num 2)]).delayedAt
        = [.num 7, .num 7, .num 10] := by decide +kernel
-- delay longer than the history
example : (exD 5 [(-2, .num 1), (-1, .num 3), (0, .num 2)]).incomplete = true
    ∧ (exD 5 [(-2, .num 1), (-1, .num 3), (0, .num 2)]).histStart = -1 := by decide +kernel
-- the rows: (y - delayed) / nominal with nominal = 3·2 + 1 = 7
example : (exD (3/2) [(-2, .num 1), (-1, .num 3), (0, .num 2)]).nominal = 7
    ∧ (exD (3/2) [(-2, .num 1), (-1, .num 3), (0, .num 2)]).rows
        = [.num (-2/7), .num (-5/14), .num (-3/7)] := by decide +kernel

/-- `exD` with a third column `z` carrying the negated values of the receiving variable `y` -/
def exDn (neg : Bool) (out : Nat) : DelayProb :=
  { mp := ⟨0, [0, 1, 2],
           [⟨⟨2, [0, 1, 2], [1, 2, 4], 0, none, some (1, 0)⟩, 0⟩, ⟨⟨1, [0, 1, 2], [5, 6, 7], 0, none, none⟩, 0⟩,
            ⟨⟨1, [0, 1, 2], [-5, -6, -7], 0, none, none⟩, 0⟩],
           [], [], []⟩,
    hists := [some [(-2, .num 1), (-1, .num 3), (0, .num 2)], none, none],
    allHistTimes := [[-2, -1, 0]],
    expr := ⟨1, [(3, [.state 0])]⟩, out := out, outNeg := neg, tau := ⟨3/2, []⟩ }

-- naming the receiving variable by the negated alias (column 2, sign -1) gives the rows of (column 1, +1);
-- naming the canonical variable with the sign -1 gives other rows, and they are not the negated rows
example : (exDn true 2).rows = (exDn false 1).rows
    ∧ (exDn false 1).rows = [.num (-2/7), .num (-5/14), .num (-3/7)]
    ∧ (exDn true 1).rows = [.num (-12/7), .num (-29/14), .num (-17/7)]
    ∧ (exDn true 1).rows ≠ (exDn false 1).rows.map Res.neg := by decide +kernel

-- simulation: tau = 3/4, dt = 1/2 -> two buffer entries, weight 1/2
example : bufLen (3/4) (1/2) = 2 ∧ weight (3/4) (1/2) = 1/2
    ∧ (simTrace (3/4) (1/2) 2 [3, 5, 4, 8]).map (·.y) = [2, 2, 5/2, 4, 9/2] := by decide +kernel
example : bufLen 0 (1/2) = 1 ∧ weight 0 (1/2) = 1 ∧ bufLen 1 (1/2) = 2 ∧ weight 1 (1/2) = 0 := by
  decide +kernel

end RtcVerif.C16
