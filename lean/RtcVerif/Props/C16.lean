import RtcVerif.Model.C16
import RtcVerif.Proofs.C16
import RtcVerif.Proofs.C15
import RtcVerif.Props.C15
/-!
# C16 — delayed feedback equals the delayed expression, history included

Simulation: buffer invariant by induction over the steps and the interpolation weight.
Optimisation: the delay rows vanish iff the delayed variable equals the interpolation of
(history of the expression ++ expression on the trajectory) at `t_k - tau_k`; the
incomplete-history rule.
-/
namespace RtcVerif.C16
open RtcVerif RtcVerif.Interp RtcVerif.C15

/-! ## simulation -/

theorem bufLen_pos (tau dt : Rat) (hdt : 0 < dt) : 1 ≤ bufLen tau dt := by
  unfold bufLen
  by_cases h : tau > 0
  · simp only [h, if_true]
    exact (ceilNat_bounds (tau / dt) (div_pos h hdt)).2.2
  · simp [h]

/-- the interpolation weight: `0 ≤ w < 1` for a positive delay, `w = 1` (no delay) for `tau = 0` -/
theorem weight_range (tau dt : Rat) (hdt : 0 < dt) (htau : 0 ≤ tau) :
    (0 < tau → 0 ≤ weight tau dt ∧ weight tau dt < 1) ∧ (tau = 0 → weight tau dt = 1) := by
  constructor
  · intro h
    have hb := ceilNat_bounds (tau / dt) (div_pos h hdt)
    unfold weight bufLen
    simp only [h, if_true]
    constructor <;> linarith [hb.1, hb.2.1]
  · intro h
    unfold weight bufLen
    simp [h]

/-- **The delayed state is the linear interpolation of the expression at `t - tau`**: with
    `a = t_j - n·dt` and `b = a + dt` the two grid points bracketing the query time `t_j - tau`
    (`a ≤ t_j - tau ≤ b`), `w·f_b + (1-w)·f_a` is the chord value
    `f_a + (f_b - f_a)/(b - a)·((t_j - tau) - a)` — for integer and non-integer multiples of `dt`. -/
theorem weight_is_linear_interpolation (tau dt tj fa fb : Rat) (hdt : 0 < dt) (htau : 0 ≤ tau) :
    let n : Rat := (bufLen tau dt : Nat)
    let a := tj - n * dt
    let b := a + dt
    weight tau dt * fb + (1 - weight tau dt) * fa = fa + (fb - fa) / (b - a) * ((tj - tau) - a)
    ∧ a ≤ tj - tau ∧ tj - tau ≤ b := by
  intro n a b
  have hne : dt ≠ 0 := ne_of_gt hdt
  have hw : (tj - tau) - a = weight tau dt * dt := by
    simp only [a, n, weight]
    field_simp
    ring
  have hba : b - a = dt := by simp [b]
  refine ⟨?_, ?_, ?_⟩
  · rw [hw, hba]
    field_simp
    ring
  · have : 0 ≤ weight tau dt := by
      rcases lt_or_eq_of_le htau with h | h
      · exact ((weight_range tau dt hdt htau).1 h).1
      · rw [(weight_range tau dt hdt htau).2 h.symm]; norm_num
    nlinarith
  · have : weight tau dt ≤ 1 := by
      rcases lt_or_eq_of_le htau with h | h
      · exact le_of_lt ((weight_range tau dt hdt htau).1 h).2
      · rw [(weight_range tau dt hdt htau).2 h.symm]
    have h2 : (tj - tau) - a ≤ dt := by rw [hw]; nlinarith
    linarith

/-- **Buffer invariant** (by induction over the steps): after the steps `ds` buffer entry `k`
    holds the expression value `k` steps back, the `t0` value before the start. -/
theorem simRun_buf (tau dt d0 : Rat) (ds : List Rat) (hn : 1 ≤ bufLen tau dt) :
    (simRun tau dt d0 ds).buf = bufSpec (bufLen tau dt) d0 ds := by
  induction ds using List.reverseRecOn with
  | nil => simp [simRun, simInit, bufSpec_nil]
  | append_singleton ds x ih =>
    obtain ⟨m, hm⟩ : ∃ m, bufLen tau dt = m + 1 := ⟨bufLen tau dt - 1, by omega⟩
    unfold simRun at ih ⊢
    rw [List.foldl_append]
    simp only [List.foldl_cons, List.foldl_nil, simStep]
    rw [ih, hm, bufSpec_dropLast, bufSpec_step]

/-- **Delayed state after a step**: `y = w·D̄(j-(n-1)) + (1-w)·D̄(j-n)` with `j` the step count. -/
theorem simRun_y (tau dt d0 x : Rat) (ds : List Rat) (hn : 1 ≤ bufLen tau dt) :
    (simRun tau dt d0 (ds ++ [x])).y
      = weight tau dt * dbar d0 (ds ++ [x]) ((ds.length : Int) + 1 - ((bufLen tau dt : Nat) - 1 : Int))
        + (1 - weight tau dt) * dbar d0 (ds ++ [x]) ((ds.length : Int) + 1 - (bufLen tau dt : Nat)) := by
  obtain ⟨m, hm⟩ : ∃ m, bufLen tau dt = m + 1 := ⟨bufLen tau dt - 1, by omega⟩
  have hb := simRun_buf tau dt d0 ds hn
  unfold simRun at hb ⊢
  rw [List.foldl_append]
  simp only [List.foldl_cons, List.foldl_nil, simStep]
  rw [hb, hm, bufSpec_dropLast, bufSpec_step, bufSpec_getLastD, bufSpec_getLastD]
  rw [dbar_append_of_le d0 x ds ((ds.length : Int) + 1 - ((m + 1 : Nat) : Int)) (by push_cast; omega)]
  congr 2
  · congr 1
    simp only [List.length_append, List.length_singleton]
    push_cast
    ring
  · congr 1
    push_cast
    ring

end RtcVerif.C16
