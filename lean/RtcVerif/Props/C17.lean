import RtcVerif.Model.C17LinOrder
import RtcVerif.Proofs.C17Chord
import RtcVerif.Model.C17Vector
import RtcVerif.Proofs.C17Vector
import RtcVerif.Model.C17SinglePass
import RtcVerif.Proofs.C17SinglePass
import RtcVerif.Model.C17Code
import RtcVerif.Model.C17Caching
import RtcVerif.Proofs.C17Caching
import Mathlib.Algebra.Order.Field.Rat
import Mathlib.Algebra.Order.AbsoluteValue.Basic
import Mathlib.Tactic.Linarith
import Mathlib.Tactic.Ring
/-!
# C17 — equivalent formulations give equal optima

Formulation-level theorems: the auxiliary-variable form of `|f/n|`, the piecewise-linear majorant
of `eps^order` (for ANY knot vector `0 = x_0 < … < x_K = 1`, any integer order), and the
vector-goal = scalar-goals equality of the objective model (see `Props/C17Vector` part below).
The caching QP front-end `CachingQPSol` has a logic model (`Model/C17Caching.lean`, last section below):
history independence of what reaches the back-end, the reported objective, the shifted row bounds.
The other runtime equivalences (map modes, expand, re-solve) have no logic model beyond "same rows"
and are decided by the differential runs of the harness.
-/
namespace RtcVerif.C17

/-! ## absolute value through an auxiliary variable -/

/-- the two rows and the bound of the converted goal say exactly `a ≥ |f/n|` -/
theorem min_abs_feasible_iff (f n a : ℚ) : minAbsFeasible f n a = true ↔ |f / n| ≤ a := by
  simp only [minAbsFeasible, Bool.and_eq_true, decide_eq_true_eq]
  have e1 : a + 1 * f / n = a + f / n := by ring
  have e2 : a + -1 * f / n = a - f / n := by ring
  rw [e1, e2, abs_le]
  constructor
  · rintro ⟨⟨h1, h2⟩, _⟩; constructor <;> linarith
  · rintro ⟨h1, h2⟩
    refine ⟨⟨by linarith, by linarith⟩, ?_⟩
    have := abs_nonneg (f / n)
    have : |f / n| ≤ a := abs_le.2 ⟨h1, h2⟩
    linarith [abs_nonneg (f / n)]

/-- **`min { w·a | a ≥ f/n, a ≥ -f/n } = w·|f/n|`** for `w > 0`: the value `|f/n|` is feasible and
    no feasible `a` gives a smaller objective. -/
theorem min_abs_value (w f n : ℚ) (hw : 0 < w) :
    minAbsFeasible f n |f / n| = true
      ∧ ∀ a, minAbsFeasible f n a = true → w * |f / n| ≤ w * a := by
  refine ⟨(min_abs_feasible_iff f n _).2 (le_refl _), ?_⟩
  intro a ha
  exact mul_le_mul_of_nonneg_left ((min_abs_feasible_iff f n a).1 ha) (le_of_lt hw)

/-- strictness: for `w > 0` a feasible `a` attains the minimum only at `|f/n|` (unique minimiser) -/
theorem min_abs_unique (w f n a : ℚ) (hw : 0 < w) (ha : minAbsFeasible f n a = true)
    (hmin : w * a ≤ w * |f / n|) : a = |f / n| := by
  have h1 := (min_abs_feasible_iff f n a).1 ha
  have h2 : a ≤ |f / n| := le_of_mul_le_mul_left hmin hw
  exact le_antisymm h2 h1

example : minAbsFeasible (-6) 2 3 = true ∧ minAbsFeasible (-6) 2 (5/2) = false := by decide +kernel

/-- **`minAbs_relaxation_scaled`**: the bound retained for the converted goal (function = auxiliary
    variable `a = |f|/n`, nominal 1, relaxation `r/n`) after its priority, `a ≤ (a* + r/n)/1 + cr`, is
    the original goal's bound in physical units: `|f| ≤ |f*| + r + n·cr`. -/
theorem minAbs_relaxation_scaled (f fstar r n cr : ℚ) (hn : 0 < n) :
    |f| / n ≤ retainedUpper (|fstar| / n) (convertedRelaxation r n) 1 cr ↔ |f| ≤ |fstar| + r + n * cr := by
  unfold retainedUpper convertedRelaxation
  have e : (|fstar| / n + r / n) / 1 + cr = (|fstar| + r + n * cr) / n := by
    field_simp
  rw [e, div_le_div_iff_of_pos_right hn]

/-- without the division (relaxation kept in physical units on the scaled variable) the retained bound
    is `|f| ≤ |f*| + r·n + n·cr`: a different constraint whenever `n ≠ 1` and `r ≠ 0` -/
theorem minAbs_relaxation_unscaled_differs (f fstar r n cr : ℚ) (hn : 0 < n) :
    |f| / n ≤ retainedUpper (|fstar| / n) r 1 cr ↔ |f| ≤ |fstar| + r * n + n * cr := by
  unfold retainedUpper
  have e : (|fstar| / n + r) / 1 + cr = (|fstar| + r * n + n * cr) / n := by
    field_simp
  rw [e, div_le_div_iff_of_pos_right hn]

example : retainedUpper (|(0:ℚ)| / 10) (convertedRelaxation (1/2) 10) 1 0 = 1/20
    ∧ retainedUpper (|(0:ℚ)| / 10) (1/2) 1 0 = 1/2 := by
  norm_num [retainedUpper, convertedRelaxation]

/-! ## linearised order: `lin(x) = max_i (a_i x + b_i)` over the chords of `x^r` -/

/-- the optimiser's variable (`lin ≥ a_i·eps + b_i` for all `i`, minimised) takes the value `linMax` -/
theorem lin_is_least_feasible (cs : List (ℚ × ℚ)) (x : ℚ) (hne : cs ≠ []) :
    (∀ l ∈ cs, lineAt l x ≤ linMax cs x)
      ∧ ∀ v, (∀ l ∈ cs, lineAt l x ≤ v) → linMax cs x ≤ v :=
  ⟨le_linMax cs x, fun v hv => linMax_le cs x v hne hv⟩

/-- shape of a valid knot vector -/
theorem knotsOK_shape {xs : List ℚ} (h : knotsOK xs = true) :
    ∃ q rest, xs = 0 :: q :: rest ∧ increasing xs = true ∧ lastD xs 0 = 1 := by
  match xs, h with
  | x0 :: q :: rest, h =>
    simp only [knotsOK, Bool.and_eq_true, decide_eq_true_eq] at h
    obtain ⟨⟨h0, h1⟩, h2⟩ := h
    subst h0
    exact ⟨q, rest, rfl, h2, h1⟩

/-- **Own chord**: for `0 ≤ x ≤ 1`, `lin(x)` is the chord of a segment `[p, q] ∋ x` of the table. -/
theorem lin_eq_chord (r : ℕ) (xs : List ℚ) (hk : knotsOK xs = true) (x : ℚ) (hx0 : 0 ≤ x) (hx1 : x ≤ 1) :
    ∃ s ∈ segs xs, 0 ≤ s.1 ∧ s.1 < s.2 ∧ s.1 ≤ x ∧ x ≤ s.2 ∧ s.2 ≤ 1
      ∧ linMax (coeffs r xs) x = chord r s.1 s.2 x := by
  obtain ⟨q, rest, rfl, hinc, hlast⟩ := knotsOK_shape hk
  obtain ⟨s, hs, h1, h2, h3, h4, h5⟩ :=
    linMax_eq_own_chord r x rest 0 q hinc (le_refl 0) hx0 (by rw [hlast]; exact hx1)
  have h6 := (segs_le_last 0 (q :: rest) hinc).2 s hs
  rw [hlast] at h6
  exact ⟨s, hs, h1, h2, h3, h4, h6, h5⟩

/-- **Never underestimates**: `lin(x) ≥ x^r` on `[0, 1]`. -/
theorem lin_ge_pow (r : ℕ) (xs : List ℚ) (hk : knotsOK xs = true) (x : ℚ) (hx0 : 0 ≤ x) (hx1 : x ≤ 1) :
    x ^ r ≤ linMax (coeffs r xs) x := by
  obtain ⟨s, _, h1, h2, h3, h4, _, h5⟩ := lin_eq_chord r xs hk x hx0 hx1
  rw [h5]; exact chord_ge_inside r s.1 s.2 x h1 h2 h3 h4

/-- **Exact at 0**: `lin(0) = 0` (order ≥ 1). -/
theorem lin_zero (r : ℕ) (hr : 1 ≤ r) (xs : List ℚ) (hk : knotsOK xs = true) :
    linMax (coeffs r xs) 0 = 0 := by
  obtain ⟨s, _, h1, _, h3, _, _, h5⟩ := lin_eq_chord r xs hk 0 (le_refl 0) (by norm_num)
  have hs : s.1 = 0 := le_antisymm h3 h1
  rw [h5, hs, chord_left]
  exact zero_pow (by omega)

/-- **Exact at 1**: `lin(1) = 1`. -/
theorem lin_one (r : ℕ) (xs : List ℚ) (hk : knotsOK xs = true) :
    linMax (coeffs r xs) 1 = 1 := by
  obtain ⟨s, _, _, h2, _, h4, h6, h5⟩ := lin_eq_chord r xs hk 1 (by norm_num) (le_refl 1)
  have hs : s.2 = 1 := le_antisymm h6 h4
  rw [h5, ← hs, chord_right r s.1 s.2 (ne_of_lt h2), hs, one_pow]

/-- **Overestimate bound**: on `[0,1]`, `lin(x) - x^r` is at most the chord-vs-tangent gap
    `q^r - T_p(q)` of the segment `[p, q]` containing `x` (with the knots the code computes,
    `q^r - T_p(q) = eps · q^(r-1)`: its stated tolerance), hence at most the largest such gap. -/
theorem lin_overestimate (r : ℕ) (xs : List ℚ) (hk : knotsOK xs = true) (x : ℚ) (hx0 : 0 ≤ x) (hx1 : x ≤ 1) :
    ∃ s ∈ segs xs, s.1 ≤ x ∧ x ≤ s.2 ∧ linMax (coeffs r xs) x - x ^ r ≤ segGap r s.1 s.2 := by
  obtain ⟨s, hs, h1, h2, h3, h4, _, h5⟩ := lin_eq_chord r xs hk x hx0 hx1
  exact ⟨s, hs, h3, h4, by rw [h5]; exact chord_sub_pow_le_segGap r s.1 s.2 x h1 h2 h3 h4⟩

theorem segGaps_eq_map (r : ℕ) (xs : List ℚ) : segGaps r xs = (segs xs).map fun s => segGap r s.1 s.2 := by
  induction xs with
  | nil => rfl
  | cons p rest ih =>
    cases rest with
    | nil => rfl
    | cons q rest' => simp only [segGaps, segs, List.map_cons, ih]

/-- uniform form: any number bounding every segment gap of the table bounds the overestimate -/
theorem lin_overestimate_le (r : ℕ) (xs : List ℚ) (hk : knotsOK xs = true) (tol : ℚ)
    (htol : ∀ g ∈ segGaps r xs, g ≤ tol) (x : ℚ) (hx0 : 0 ≤ x) (hx1 : x ≤ 1) :
    linMax (coeffs r xs) x - x ^ r ≤ tol := by
  obtain ⟨s, hs, _, _, h⟩ := lin_overestimate r xs hk x hx0 hx1
  refine le_trans h (htol _ ?_)
  rw [segGaps_eq_map]; exact List.mem_map.2 ⟨s, hs, rfl⟩

/-- **Convex** (a maximum of affine functions). -/
theorem lin_convex (cs : List (ℚ × ℚ)) (x y t : ℚ) (ht0 : 0 ≤ t) (ht1 : t ≤ 1) :
    linMax cs (t * x + (1 - t) * y) ≤ t * linMax cs x + (1 - t) * linMax cs y :=
  linMax_convex cs x y t ht0 ht1

/-- **Non-decreasing**: every chord of a valid knot vector has a non-negative slope. -/
theorem lin_mono (r : ℕ) (xs : List ℚ) (hk : knotsOK xs = true) (x y : ℚ) (hxy : x ≤ y) :
    linMax (coeffs r xs) x ≤ linMax (coeffs r xs) y := by
  obtain ⟨q, rest, rfl, hinc, _⟩ := knotsOK_shape hk
  apply linMax_mono _ x y _ hxy
  intro l hl
  rw [coeffs_eq_map] at hl
  obtain ⟨s, hs, rfl⟩ := List.mem_map.1 hl
  obtain ⟨h1, h2⟩ := segs_right 0 (q :: rest) hinc s hs
  exact slope_nonneg r s.1 s.2 h1 h2

/-- non-vacuity: a 3-knot table for order 2; values at 0, 1/4 (interior), 1/2 (knot), 1 -/
example :
    knotsOK [0, 1/2, 1] = true
      ∧ coeffs 2 [0, 1/2, 1] = [(1/2, 0), (3/2, -1/2)]
      ∧ linMax (coeffs 2 [0, 1/2, 1]) 0 = 0 ∧ linMax (coeffs 2 [0, 1/2, 1]) (1/4) = 1/8
      ∧ linMax (coeffs 2 [0, 1/2, 1]) (1/2) = 1/4 ∧ linMax (coeffs 2 [0, 1/2, 1]) 1 = 1
      ∧ segGaps 2 [0, 1/2, 1] = [1/4, 1/4] := by
  decide +kernel

/-! ## a vector goal and its scalar goals -/

open RtcVerif.C03 in
/-- **`vector_goal_eq_scalars`** (objective): replacing every goal of a priority by its `size`
    scalar goals (same weight / order, nominal and target column of the component) leaves the
    objective handed to the solver unchanged — including the per-component divisors `n_active`
    and the count `n_objectives` under `scale_by_problem_size`, for any number of members, steps
    and probabilities — when the two valuations assign the same value to component `c` of goal `j`
    and to the corresponding scalar goal, and every component is a goal of the same kind
    (`splitOK`: without a finite target a scalar component would be a minimisation goal). -/
theorem vector_goal_eq_scalars (sbs : Bool) (T : Nat) (probs : List Rat) (val val' : Val)
    (goals pathGoals : List Goal)
    (hok : ∀ g ∈ goals, splitOK g = true) (hokp : ∀ g ∈ pathGoals, splitOK g = true)
    (hv : valsAgree false goals val val') (hvp : valsAgree true pathGoals val val') :
    objective sbs T probs val' (splitAll goals) (splitAll pathGoals)
      = objective sbs T probs val goals pathGoals := by
  rw [objective_eq_documented, objective_eq_documented]
  unfold documented
  apply sum_map_congr'
  intro pm _
  rw [point_sum_eq pm.2 goals val val' hok hv, path_sum_eq sbs T pm.2 pathGoals val val' hokp hvp,
    nGoalsDoc_splitAll]

open RtcVerif.C03 in
/-- the number of objective entries (`n_objectives`) is the same in both formulations -/
theorem vector_goal_n_objectives (sbs : Bool) (T : Nat) (val val' : Val) (m : Nat) (goals pathGoals : List Goal) :
    nObjectives sbs T val' m (splitAll goals) (splitAll pathGoals) = nObjectives sbs T val m goals pathGoals := by
  rw [nObjectives_eq, nObjectives_eq, nGoalsDoc_splitAll]

open RtcVerif.C03 in
/-- the scalar goal of component `c` sees exactly column `c` of the targets, so its soft-constraint
    rows and active steps are those of the component -/
theorem vector_goal_component_targets (g : Goal) (c i : Nat) :
    (compGoal g c).tmin.entry 0 i = g.tmin.entry c i ∧ (compGoal g c).tmax.entry 0 i = g.tmax.entry c i
      ∧ (compGoal g c).activeAt 0 i = g.activeAt c i :=
  ⟨compTarget_entry g.tmin c i, compTarget_entry g.tmax c i, compGoal_activeAt g c i⟩

open RtcVerif.C03 in
/-- non-vacuity: a size-2 path goal with a 2-D Timeseries target (a NaN gap in the second column) and
    a size-2 point minimisation goal with per-component nominals, two members, scaling on:
    the hypotheses hold for a concrete pair of valuations and the common objective is non-trivial -/
example :
    let g1 : Goal := { size := 2, weight := 2, order := 1, nominal := [10, 4],
                       tmin := .scalar .nan, tmax := .scalar .nan, critical := false }
    let g2 : Goal := { size := 2, weight := 1, order := 2, nominal := [1],
                       tmin := .ts2 [[.fin 1, .fin 0], [.fin 2, .nan], [.nan, .fin 3]],
                       tmax := .scalar .nan, critical := false }
    let val : Val := fun isPath j c m i => ((1 + j + 2 * c + m + i : Nat) : Rat) / (if isPath then 4 else 1)
    let val' : Val := fun isPath j _ m i => ((1 + 2 * j + m + i : Nat) : Rat) / (if isPath then 4 else 1)
    splitOK g1 = true ∧ splitOK g2 = true
      ∧ (quads 0 0 [g2]).map (fun q => (q.2.1, q.2.2.1, q.2.2.2)) = [(0, 0, 0), (0, 1, 1)]
      ∧ objective true 3 [1/4, 3/4] val' (splitAll [g1]) (splitAll [g2]) = 1667/1280
      ∧ objective true 3 [1/4, 3/4] val [g1] [g2] = 1667/1280 := by
  decide +kernel

/-! ## single pass (both methods) and multi-pass with kept soft constraints -/

open RtcVerif.C03 in
/-- **`update_bounds_method_eq_append`**: at every priority, single-pass method 2 (all objective rows
    pre-allocated with bounds `(-inf, +inf)`, updated after each priority) has exactly the feasible
    set of method 1 (objective rows appended one by one). -/
theorem update_bounds_method_eq_append (P : Plan) (k : Nat) (x : List Rat) :
    rowsFeasible (updateRows P k) x = rowsFeasible (appendRows P k) x := by
  simp only [updateRows, appendRows, rowsFeasible_append, updateObjRows, solvedObjRows]
  have := updateObj_aux (P.objRow.zip P.bnd) 0 k x
  simp only [Nat.sub_zero] at this
  rw [this]

open RtcVerif.C03 in
/-- every point feasible for the single-pass problem of priority `k` is feasible for the keep-soft
    multi-pass problem of that priority (its rows are a subset: soft rows of later priorities are
    the only extra rows) -/
theorem single_pass_feasible_imp_keep_soft (P : Plan) (k : Nat) (x : List Rat)
    (h : rowsFeasible (appendRows P k) x = true) : rowsFeasible (keepRows P k) x = true := by
  rw [rowsFeasible_iff] at h ⊢
  intro r hr
  apply h r
  simp only [keepRows, appendRows, List.mem_append, List.mem_flatten] at hr ⊢
  rcases hr with (hr | ⟨l, hl, hrl⟩) | hr
  · exact Or.inl (Or.inl hr)
  · exact Or.inl (Or.inr ⟨l, List.mem_of_mem_take hl, hrl⟩)
  · exact Or.inr hr

open RtcVerif.C03 in
/-- a soft row whose violation variable is set to 1 is the function-range row:
    `(f - 1·(bound - target) - target)/nominal = (f - bound)/nominal`; rows that do not mention the
    variable are untouched.  With the function range implied by the hard bounds (the documented
    hypothesis) the extra rows of the single-pass formulation therefore never cut off a point of the
    keep-soft formulation: its not-yet-active epsilons can be put to 1. -/
theorem soft_row_at_eps_one (f : SRow) (f0 : Rat) (e : Nat) (bound target nominal : Rat) (lo hi : EVal)
    (x : List Rat) (he : e < x.length) (hf : ∀ jv ∈ f, jv.1 ≠ e) :
    let r := softRow f f0 e bound target nominal lo hi
    rowDot r.coefs (setAt x e 1) + r.b0 = (rowDot f x + f0 - bound) / nominal := by
  simp only [softRow, rowDot_append, rowDot_scale, rowDot, getD_setAt_eq x e 1 he,
    rowDot_setAt_of_not_mem f x e 1 hf]
  ring

open RtcVerif.C03 in
/-- **`single_pass_eq_keep_soft`** (constraint sets; the objectives are the same function of the
    priority's own goals by C03).  Let the soft rows of the priorities after `k` be those of the
    target goals `later` (function `f·x + f0`, violation variable `e`, range `[m, M]`).  Under the
    documented hypothesis — at the point `x` every later goal's function lies in its range (implied by
    the hard bounds), the later epsilons are distinct, have positive nominals and occur in no other
    row or goal function — every point `x` feasible for the keep-soft problem of priority `k` becomes
    feasible for the single-pass problem by putting the not-yet-active epsilons to 1 and changing no
    other coordinate.  Together with `single_pass_feasible_imp_keep_soft` the two feasible sets have
    the same projection onto all other coordinates; without the range hypothesis the formulations
    genuinely differ (last `example`). -/
theorem single_pass_eq_keep_soft (P : Plan) (k : Nat) (x : List Rat) (later : List Later)
    (hlater : (P.soft.drop (k + 1)).flatten = later.flatMap Later.rows)
    (hkeep : rowsFeasible (keepRows P k) x = true)
    (hc : ∀ g ∈ later, 0 < g.nominal ∧ g.e < x.length ∧ g.m ≤ rowDot g.f x + g.f0 ∧ rowDot g.f x + g.f0 ≤ g.M)
    (hd : ∀ g ∈ later, ∀ r ∈ keepRows P k, ∀ jv ∈ r.coefs, jv.1 ≠ g.e)
    (hff : ∀ g ∈ later, ∀ g' ∈ later, ∀ jv ∈ g'.f, jv.1 ≠ g.e)
    (hdist : distinctEps later) :
    rowsFeasible (appendRows P k) (setAll x later) = true
      ∧ (setAll x later).length = x.length
      ∧ ∀ j, (∀ g ∈ later, g.e ≠ j) → (setAll x later).getD j 0 = x.getD j 0 := by
  refine ⟨?_, setAll_length later x, fun j hj => getD_setAll later x j hj⟩
  have h := extend_later later (keepRows P k) x hkeep hc hd hff hdist
  rw [rowsFeasible_iff] at h ⊢
  intro r hr
  apply h r
  simp only [appendRows, keepRows, List.mem_append] at hr ⊢
  rw [flatten_take_drop P.soft (k + 1), List.mem_append, hlater] at hr
  rcases hr with (hr | hr | hr) | hr
  · exact Or.inl (Or.inl (Or.inl hr))
  · exact Or.inl (Or.inl (Or.inr hr))
  · exact Or.inr hr
  · exact Or.inl (Or.inr hr)

open RtcVerif.C03 in
/-- non-vacuity: two priorities (`x₀` model variable, `x₁`, `x₂` the epsilons).  At priority index 1
    method 2 carries one more (vacuous) row than method 1 and accepts / rejects the same points; at
    priority index 0 the point `(-1, 1/4, 0)` is keep-soft feasible, violates the later goal's soft row
    in the single-pass problem, satisfies the hypotheses of `single_pass_eq_keep_soft`, and becomes
    single-pass feasible with `x₂ := 1`. -/
example :
    let soft0 : Row := softRow [(0, 1)] 0 1 (-10) 2 1 (.fin 0) .pinf
    let g : Later := { f := [(0, 1)], f0 := 0, e := 2, m := -10, M := 10, tmin := 5, tmax := 8, nominal := 1 }
    let P : Plan := { base := [{ coefs := [(0, 1)], b0 := 0, lo := .fin (-10), hi := .fin 10 }],
                      soft := [[soft0], g.rows],
                      objRow := [{ coefs := [(1, 1)], b0 := 0, lo := .ninf, hi := .pinf },
                                 { coefs := [(2, 1)], b0 := 0, lo := .ninf, hi := .pinf }],
                      bnd := [(.ninf, .fin (1/4)), (.ninf, .fin 0)] }
    (updateRows P 1).length = 6 ∧ (appendRows P 1).length = 5 ∧ (keepRows P 0).length = 2
      ∧ rowsFeasible (updateRows P 1) [-1, 1/4, 1] = true ∧ rowsFeasible (appendRows P 1) [-1, 1/4, 1] = true
      ∧ rowsFeasible (updateRows P 1) [-1, 1/2, 1] = false ∧ rowsFeasible (appendRows P 1) [-1, 1/2, 1] = false
      ∧ (P.soft.drop 1).flatten = [g].flatMap Later.rows
      ∧ rowsFeasible (keepRows P 0) [-1, 1/4, 0] = true ∧ rowsFeasible (appendRows P 0) [-1, 1/4, 0] = false
      ∧ ((keepRows P 0).all fun r => r.coefs.all fun jv => jv.1 != g.e) = true
      ∧ g.m ≤ rowDot g.f [-1, 1/4, 0] + g.f0 ∧ rowDot g.f [-1, 1/4, 0] + g.f0 ≤ g.M
      ∧ setAll [-1, 1/4, 0] [g] = [-1, 1/4, 1]
      ∧ rowsFeasible (appendRows P 0) (setAll [-1, 1/4, 0] [g]) = true := by
  decide +kernel

open RtcVerif.C03 in
/-- without the range hypothesis the formulations differ: a later goal whose function range
    `[0, 10]` is NOT implied by the hard bound `x₀ ≥ -10` cuts off the keep-soft feasible point
    `x₀ = -1` for every value of its epsilon in `[0, 1]` (checked at the end points; the row is affine) -/
example :
    let g : Later := { f := [(0, 1)], f0 := 0, e := 1, m := 0, M := 10, tmin := 5, tmax := 8, nominal := 1 }
    let P : Plan := { base := [{ coefs := [(0, 1)], b0 := 0, lo := .fin (-10), hi := .fin 10 }],
                      soft := [[], g.rows], objRow := [], bnd := [] }
    rowsFeasible (keepRows P 0) [-1, 0] = true
      ∧ rowsFeasible (appendRows P 0) [-1, 0] = false ∧ rowsFeasible (appendRows P 0) [-1, 1] = false := by
  decide +kernel

/-! ## the kernels in the shape of the source (targets of the generated modules `Gen/C17*.lean`) -/

/-- the array arithmetic of `_get_linear_coefficients` yields the chord table the majorant theorems are about -/
theorem code_table_is_chord_table (r : ℕ) (xs : List ℚ) : coeffsCode r xs = coeffs r xs :=
  coeffsCode_eq r xs

/-- a row `lin - a·eps - b ∈ [0, ∞)` of the linearised goal says `a·eps + b ≤ lin` -/
theorem linRow_iff (ab : ℚ × ℚ) (eps lin : ℚ) : linRowFeasible ab eps lin = true ↔ lineAt ab eps ≤ lin := by
  simp only [linRowFeasible, lineAt, decide_eq_true_eq]
  constructor <;> intro h <;> linarith

/-- the retained objective row admits the achieved value (for a non-negative relaxation) -/
theorem objBnd_contains (fix : Bool) (v cr : ℚ) (hcr : 0 ≤ cr) :
    C03.inBnd (objBnd fix v cr).1 (objBnd fix v cr).2 v = true := by
  cases fix <;> simp [objBnd, C03.inBnd, EVal.le, hcr]

/-- **per-priority options**: the retained objective row of every priority gets the same bounds in the
    single-pass problems as in keep-soft multi-pass, whatever `goal_programming_options()` returns at each
    priority (both read the two options while the row's own priority is active; the reading points are
    translated from the source: `Gen/C17OptRead.lean`) -/
theorem objRow_options_agree (opts : ℕ → Bool × ℚ) (vals : ℕ → ℚ) (j : ℕ) :
    rowBnd singlePassOptRead opts vals j = rowBnd keepSoftOptRead opts vals j
      ∧ rowBnd singlePassOptRead opts vals j = objBnd (opts j).1 (vals j) (opts j).2 := ⟨rfl, rfl⟩

/-- reading the options when the next priority is transcribed is a different formulation as soon as the
    options differ between consecutive priorities -/
theorem objRow_next_priority_differs (opts : ℕ → Bool × ℚ) (vals : ℕ → ℚ) (j : ℕ)
    (hfix : (opts j).1 = false) (hfix' : (opts (j + 1)).1 = false) (hcr : (opts j).2 ≠ (opts (j + 1)).2) :
    rowBnd .nextPriority opts vals j ≠ rowBnd .ownPriority opts vals j := by
  simp only [rowBnd, optsForRow, objBnd, hfix, hfix', Bool.false_eq_true, ↓reduceIte, ne_eq, Prod.mk.injEq,
    true_and, EVal.fin.injEq]
  intro h
  exact hcr (by linarith)

example :
    let opts : ℕ → Bool × ℚ := fun i => if i = 0 then (false, 1/20) else (false, 1/50)
    rowBnd singlePassOptRead opts (fun _ => 3) 0 = (.ninf, .fin (61/20))
      ∧ rowBnd .nextPriority opts (fun _ => 3) 0 = (.ninf, .fin (151/50)) := by
  decide +kernel

/-- **re-solve = fresh instance** on the reset attributes: after the reset at the start of `optimize()`
    every reset attribute has its fresh value whatever the previous state was -/
theorem optimize_reset_independent (reset prev prev' : List (String × Fresh)) (k : String)
    (hk : (reset.find? fun kv => kv.1 == k).isSome = true) :
    lookup (applyReset reset prev) k = lookup (applyReset reset prev') k := by
  unfold lookup applyReset
  rw [List.find?_append, List.find?_append]
  cases h : reset.find? fun kv => kv.1 == k with
  | none => simp [h] at hk
  | some a => simp

example : lookup (applyReset gpmReset [("__constraint_store", .emptyList), ("other", .zero)]) "__constraint_store"
      = some .perMember
    ∧ lookup (applyReset gpmReset [("__constraint_store", .emptyList), ("other", .zero)]) "other" = some .zero := by
  decide

/-! ## `CachingQPSol`: the QP handed to the back-end does not depend on the history

Model: `Model/C17Caching.lean` (`construct` = `Solver.__init__` incl. the `_tlcache` logic, `call` =
`Solver.__call__` up to the back-end call, `report` = the reconstructed objective); tied to the source by
`Gen/C17Caching.lean`. -/

/-- one construction with the cache left by an earlier NLP whose rows the new NLP starts with
    (rows appended or unchanged, same variables): the solver object and the cache afterwards are those of a
    fresh extraction of the new NLP -/
theorem caching_construct_eq_fresh (p q : NLP) (h : Extends p q) :
    construct (some (cacheOf p)) q = construct none q := by
  rw [construct_cached p q h, construct_none]

/-- **history independence** (induction over the life of one `CachingQPSol` object): for every sequence of
    constructions whose NLPs each extend the previous one, each followed by any number of calls with
    arbitrary `x0, lbx, ubx, lbg, ubg`, every solver object, every dict handed to the conic back-end
    (`h, g, a, x0, lbx, ubx, lba, uba`), every `_f0` and every raised dimension error is the one of a
    solver built without cache and never called before -/
theorem caching_eq_fresh (evs : List (NLP × List CallIn)) (hc : chainOK (evs.map (·.1))) :
    session none evs = sessionFresh evs := by
  cases evs with
  | nil => rfl
  | cons ev rest =>
    obtain ⟨p, is⟩ := ev
    rw [session, construct_none]
    simp only [sessionFresh, List.map_cons]
    rw [callsOn_eq_fresh p is (extract p).sin rfl rfl rfl]
    congr 1
    exact session_eq_fresh_aux p rest hc

/-- within one solver object: a successful call overwrites everything an earlier call (successful or
    not) left in `_solver_in`; what reaches the back-end is `freshIn` of the CURRENT arguments -/
theorem caching_call_overwrites (p : NLP) (i : CallIn) (d r : SolverIn)
    (hh : d.h = some (extractH p)) (hg : d.g = some (extractC p)) (ha : d.a = some (extractA p))
    (hr : call (extract p) d i = .ok r) : r = freshIn p i :=
  call_eq_freshIn p i d hh hg ha r hr

/-- a call raises exactly when a bound vector does not have one entry per (cached + new) row -/
theorem caching_call_ok_iff (s : SolverObj) (d : SolverIn) (i : CallIn) :
    (call s d i).isOk = true ↔ i.lbg.length = s.b.length ∧ i.ubg.length = s.b.length := by
  unfold call
  cases hb : (i.lbg.length == s.b.length && i.ubg.length == s.b.length)
  · simp only [Bool.not_false, ↓reduceIte]
    simp only [Bool.and_eq_false_iff, beq_eq_false_iff_ne] at hb
    constructor
    · intro hx; cases hx
    · rintro ⟨h1, h2⟩; rcases hb with hb | hb <;> contradiction
  · simp only [Bool.not_true, Bool.false_eq_true, ↓reduceIte]
    simp only [Bool.and_eq_true, beq_iff_eq] at hb
    exact ⟨fun _ => hb, fun _ => rfl⟩

/-- **reported objective** `cost + f(0)` with the conic cost `1/2 x'Hx + g'x` is the NLP objective, for
    every `x` and every (not necessarily symmetric) coefficient matrix `Q`: `H = Q + Q'` in full (F42), the
    constant `f(0)` added back (F48) -/
theorem caching_report_eq_objective (p : NLP) (x : ℕ → ℚ) :
    report (extract p) (conicCost p.n (extractH p) (extractC p) x) = p.f.eval p.n x := by
  unfold report conicCost QuadF.eval
  rw [quadTo_extractH, dotTo_extractC]
  simp only [extract]
  ring

/-- **constraint bounds**: `lbg - g(0) ≤ A x ≤ ubg - g(0)` iff `lbg ≤ g(x) ≤ ubg`, all rows, infinite
    bounds included -/
theorem caching_bounds_iff (p : NLP) (lbg ubg : List EVal) (x : ℕ → ℚ) :
    conicRowsFeasible p.n (extractA p) (subVec lbg (extractB p)) (subVec ubg (extractB p)) x
      = nlpRowsFeasible p.n p.g lbg ubg x := by
  unfold conicRowsFeasible nlpRowsFeasible extractA extractB
  exact inRows_shift p.n p.g lbg ubg x

/-- one row, as order statements on extended values -/
theorem caching_row_bounds_iff (lo hi : EVal) (b v : ℚ) :
    (shift lo b ≤ .fin v ∧ EVal.fin v ≤ shift hi b) ↔ (lo ≤ .fin (v + b) ∧ EVal.fin (v + b) ≤ hi) := by
  simp only [EVal.le_def, shift_le_fin, fin_le_shift]

/-- **equal optima**: a point that is optimal for the QP the back-end receives (after any admissible
    history) is optimal for the NLP with the caller's bounds, and the reported value is the NLP objective
    there (variable bounds `lbx, ubx` are passed through unchanged: `freshIn`) -/
theorem caching_optimum_eq (p : NLP) (lbg ubg : List EVal) (box : (ℕ → ℚ) → Prop) (xs : ℕ → ℚ)
    (hfeas : conicRowsFeasible p.n (extractA p) (subVec lbg (extractB p)) (subVec ubg (extractB p)) xs = true)
    (hopt : ∀ y, box y →
      conicRowsFeasible p.n (extractA p) (subVec lbg (extractB p)) (subVec ubg (extractB p)) y = true →
      conicCost p.n (extractH p) (extractC p) xs ≤ conicCost p.n (extractH p) (extractC p) y) :
    nlpRowsFeasible p.n p.g lbg ubg xs = true
      ∧ (∀ y, box y → nlpRowsFeasible p.n p.g lbg ubg y = true → p.f.eval p.n xs ≤ p.f.eval p.n y)
      ∧ report (extract p) (conicCost p.n (extractH p) (extractC p) xs) = p.f.eval p.n xs := by
  refine ⟨by rw [← caching_bounds_iff]; exact hfeas, ?_, caching_report_eq_objective p xs⟩
  intro y hy hyf
  rw [← caching_bounds_iff] at hyf
  have := hopt y hy hyf
  rw [← caching_report_eq_objective p xs, ← caching_report_eq_objective p y]
  unfold report
  linarith

/-- non-vacuity of `caching_optimum_eq`: `min x² + 3` over `x + 1 ≥ 2`; `x = 1` is optimal for the QP the
    back-end receives (`lba = 2 - 1`), hence for the NLP, and the reported value is `f(1) = 4` -/
example :
    let p : NLP := { n := 1, f := { Q := [[1]], c := [0], k := 3 }, g := [{ a := [1], b := 1 }] }
    let xs : ℕ → ℚ := fun _ => 1
    nlpRowsFeasible p.n p.g [.fin 2] [.pinf] xs = true
      ∧ (∀ y, True → nlpRowsFeasible p.n p.g [.fin 2] [.pinf] y = true → p.f.eval p.n xs ≤ p.f.eval p.n y)
      ∧ report (extract p) (conicCost p.n (extractH p) (extractC p) xs) = p.f.eval p.n xs := by
  intro p xs
  refine caching_optimum_eq p [.fin 2] [.pinf] (fun _ => True) xs (by decide +kernel) ?_
  intro y _ hy
  have hA : (extractA p).rows = [[1]] := by decide +kernel
  have hB : extractB p = [1] := by decide +kernel
  have hH : (extractH p).rows = [[2]] := by decide +kernel
  have hC : extractC p = [0] := by decide +kernel
  have hn : p.n = 1 := rfl
  have hx : xs 0 = 1 := rfl
  simp only [conicRowsFeasible, hA, hB, hn, subVec, shift, List.map, List.zipWith, inRows, dotTo, sumTo, EVal.le,
    List.getD_cons_zero, Bool.and_true, decide_eq_true_eq, zero_add, one_mul] at hy
  simp only [conicCost, hH, hC, hn, quadTo, dotTo, sumTo, entry, List.getD_cons_zero, zero_add, zero_mul, add_zero, hx]
  have h1 : (1 : ℚ) ≤ y 0 := by linarith [hy]
  nlinarith [h1]

/-- **when the cache is invalidated**: only a different number of variables is noticed (an exception,
    the cache stays); nothing else is ever dropped during the life of the object -/
theorem caching_dimension_guard (p q : NLP) (h : q.n ≠ p.n) :
    ∃ e, construct (some (cacheOf p)) q = .error e := by
  refine ⟨"Number of variables does not match cached constraint matrix dimensions", ?_⟩
  unfold construct
  have : (q.n == (cacheOf p).A.ncol) = false := by
    simp [cacheOf, extractA, jacobian, h]
  simp only [this, Bool.not_false, ↓reduceIte]

/-- non-vacuity of `caching_dimension_guard`: a 2-variable NLP after a 1-variable one raises; the same NLP
    on an empty cache is accepted -/
example :
    let p : NLP := { n := 1, f := { Q := [[1]], c := [0], k := 0 }, g := [{ a := [1], b := 0 }] }
    let q : NLP := { n := 2, f := { Q := [[1, 0], [0, 1]], c := [0, 0], k := 0 }, g := [{ a := [1, 1], b := 0 }] }
    (construct (some (cacheOf p)) q).isOk = false ∧ (construct none q).isOk = true := by
  decide +kernel

/-- the prefix hypothesis of `caching_eq_fresh` is needed: with the same number of rows but a changed
    row (here its constant part) the cached row is handed to the back-end -/
theorem caching_stale_without_prefix :
    ∃ p q : NLP, q.n = p.n ∧ q.g.length = p.g.length
      ∧ construct (some (cacheOf p)) q ≠ construct none q := by
  refine ⟨{ n := 1, f := { Q := [[1]], c := [0], k := 0 }, g := [{ a := [1], b := 0 }] },
          { n := 1, f := { Q := [[1]], c := [0], k := 0 }, g := [{ a := [1], b := 5 }] }, rfl, rfl, ?_⟩
  decide +kernel

/-- non-vacuity: two variables, `f = x0² + 3 x0 x1 - x0 x1 + 2 x1² + x0 - 2 x1 + 5` (asymmetric `Q`), a row
    with constant 3, then a second NLP with one more row; two calls on the first solver (the second with
    other bounds), one on the second.  The chain hypothesis holds (so the whole session equals the fresh one);
    the first call hands `lba = 1/2 - 3`, `uba = inf`; the reported value at `x = (1, -1)` is `f(1,-1) = 9`. -/
example :
    let f : QuadF := { Q := [[1, 3], [-1, 2]], c := [1, -2], k := 5 }
    let p : NLP := { n := 2, f := f, g := [{ a := [1, 1], b := 3 }] }
    let q : NLP := { n := 2, f := f, g := [{ a := [1, 1], b := 3 }, { a := [1, -1], b := 4 }] }
    let i1 : CallIn := { x0 := [0, 0], lbx := [.fin (-10), .ninf], ubx := [.fin 10, .pinf], lbg := [.fin (1/2)], ubg := [.pinf] }
    let i2 : CallIn := { i1 with lbg := [.ninf], ubg := [.fin 7] }
    let i3 : CallIn := { i1 with lbg := [.fin 0, .fin 0], ubg := [.fin 9, .pinf] }
    let evs := [(p, [i1, i2]), (q, [i3])]
    let x : ℕ → ℚ := fun i => if i = 0 then 1 else -1
    chainOK (evs.map (·.1))
      ∧ (session none evs).map (fun t => t.calls.map fun r => r.toOption.map (·.lba))
          = [[some (some [.fin (-5/2)]), some (some [.ninf])], [some (some [.fin (-3), .fin (-4)])]]
      ∧ (extractH p).rows = [[2, 2], [2, 4]] ∧ extractC p = [1, -2]
      ∧ p.f.eval 2 x = 9 ∧ report (extract p) (conicCost 2 (extractH p) (extractC p) x) = 9
      ∧ nlpRowsFeasible 2 q.g i3.lbg i3.ubg x = true
      ∧ conicRowsFeasible 2 (extractA q) (subVec i3.lbg (extractB q)) (subVec i3.ubg (extractB q)) x = true
      ∧ (call (extract q) (extract q).sin i1).isOk = false := by
  refine ⟨⟨⟨rfl, [_], rfl⟩, trivial⟩, ?_⟩
  decide +kernel


end RtcVerif.C17
