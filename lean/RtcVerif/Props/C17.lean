import RtcVerif.Model.C17LinOrder
import RtcVerif.Proofs.C17Chord
import Mathlib.Algebra.Order.Field.Rat
import Mathlib.Algebra.Order.AbsoluteValue.Basic
import Mathlib.Tactic.Linarith
import Mathlib.Tactic.Ring
/-!
# C17 — equivalent formulations give equal optima

Formulation-level theorems: the auxiliary-variable form of `|f/n|`, the piecewise-linear majorant
of `eps^order` (for ANY knot vector `0 = x_0 < … < x_K = 1`, any integer order), and the
vector-goal = scalar-goals equality of the objective model (see `Props/C17Vector` part below).
The runtime equivalences (caching QP front-end, map modes, re-solve) have no logic model beyond
"same rows" and are decided by the differential runs of the harness.
-/
namespace RtcVerif.C17

/-! ## absolute value through an auxiliary variable -/

/-- the two rows and the bound of the converted goal say exactly `a ≥ |f/n|` -/
theorem min_abs_feasible_iff (f n a : ℚ) : minAbsFeasible f n a = true ↔ |f / n| ≤ a := by
  simp only [minAbsFeasible, Bool.and_eq_true, decide_eq_true_eq]
  have e1 : a + 1 * f / n = a + f / n := by ring
  have e2 : a + -1 * f / n = a - f / n := by ring
  rw [e1, e2, abs_le]
  constructor
  · rintro ⟨⟨h1, h2⟩, _⟩; constructor <;> linarith
  · rintro ⟨h1, h2⟩
    refine ⟨⟨by linarith, by linarith⟩, ?_⟩
    have := abs_nonneg (f / n)
    have : |f / n| ≤ a := abs_le.2 ⟨h1, h2⟩
    linarith [abs_nonneg (f / n)]

/-- **`min { w·a | a ≥ f/n, a ≥ -f/n } = w·|f/n|`** for `w > 0`: the value `|f/n|` is feasible and
    no feasible `a` gives a smaller objective. -/
theorem min_abs_value (w f n : ℚ) (hw : 0 < w) :
    minAbsFeasible f n |f / n| = true
      ∧ ∀ a, minAbsFeasible f n a = true → w * |f / n| ≤ w * a := by
  refine ⟨(min_abs_feasible_iff f n _).2 (le_refl _), ?_⟩
  intro a ha
  exact mul_le_mul_of_nonneg_left ((min_abs_feasible_iff f n a).1 ha) (le_of_lt hw)

/-- strictness: for `w > 0` a feasible `a` attains the minimum only at `|f/n|` (unique minimiser) -/
theorem min_abs_unique (w f n a : ℚ) (hw : 0 < w) (ha : minAbsFeasible f n a = true)
    (hmin : w * a ≤ w * |f / n|) : a = |f / n| := by
  have h1 := (min_abs_feasible_iff f n a).1 ha
  have h2 : a ≤ |f / n| := le_of_mul_le_mul_left hmin hw
  exact le_antisymm h2 h1

example : minAbsFeasible (-6) 2 3 = true ∧ minAbsFeasible (-6) 2 (5/2) = false := by decide +kernel

/-! ## linearised order: `lin(x) = max_i (a_i x + b_i)` over the chords of `x^r` -/

/-- the optimiser's variable (`lin ≥ a_i·eps + b_i` for all `i`, minimised) takes the value `linMax` -/
theorem lin_is_least_feasible (cs : List (ℚ × ℚ)) (x : ℚ) (hne : cs ≠ []) :
    (∀ l ∈ cs, lineAt l x ≤ linMax cs x)
      ∧ ∀ v, (∀ l ∈ cs, lineAt l x ≤ v) → linMax cs x ≤ v :=
  ⟨le_linMax cs x, fun v hv => linMax_le cs x v hne hv⟩

/-- shape of a valid knot vector -/
theorem knotsOK_shape {xs : List ℚ} (h : knotsOK xs = true) :
    ∃ q rest, xs = 0 :: q :: rest ∧ increasing xs = true ∧ lastD xs 0 = 1 := by
  match xs, h with
  | x0 :: q :: rest, h =>
    simp only [knotsOK, Bool.and_eq_true, decide_eq_true_eq] at h
    obtain ⟨⟨h0, h1⟩, h2⟩ := h
    subst h0
    exact ⟨q, rest, rfl, h2, h1⟩

/-- **Own chord**: for `0 ≤ x ≤ 1`, `lin(x)` is the chord of a segment `[p, q] ∋ x` of the table. -/
theorem lin_eq_chord (r : ℕ) (xs : List ℚ) (hk : knotsOK xs = true) (x : ℚ) (hx0 : 0 ≤ x) (hx1 : x ≤ 1) :
    ∃ s ∈ segs xs, 0 ≤ s.1 ∧ s.1 < s.2 ∧ s.1 ≤ x ∧ x ≤ s.2 ∧ s.2 ≤ 1
      ∧ linMax (coeffs r xs) x = chord r s.1 s.2 x := by
  obtain ⟨q, rest, rfl, hinc, hlast⟩ := knotsOK_shape hk
  obtain ⟨s, hs, h1, h2, h3, h4, h5⟩ :=
    linMax_eq_own_chord r x rest 0 q hinc (le_refl 0) hx0 (by rw [hlast]; exact hx1)
  have h6 := (segs_le_last 0 (q :: rest) hinc).2 s hs
  rw [hlast] at h6
  exact ⟨s, hs, h1, h2, h3, h4, h6, h5⟩

/-- **Never underestimates**: `lin(x) ≥ x^r` on `[0, 1]`. -/
theorem lin_ge_pow (r : ℕ) (xs : List ℚ) (hk : knotsOK xs = true) (x : ℚ) (hx0 : 0 ≤ x) (hx1 : x ≤ 1) :
    x ^ r ≤ linMax (coeffs r xs) x := by
  obtain ⟨s, _, h1, h2, h3, h4, _, h5⟩ := lin_eq_chord r xs hk x hx0 hx1
  rw [h5]; exact chord_ge_inside r s.1 s.2 x h1 h2 h3 h4

/-- **Exact at 0**: `lin(0) = 0` (order ≥ 1). -/
theorem lin_zero (r : ℕ) (hr : 1 ≤ r) (xs : List ℚ) (hk : knotsOK xs = true) :
    linMax (coeffs r xs) 0 = 0 := by
  obtain ⟨s, _, h1, _, h3, _, _, h5⟩ := lin_eq_chord r xs hk 0 (le_refl 0) (by norm_num)
  have hs : s.1 = 0 := le_antisymm h3 h1
  rw [h5, hs, chord_left]
  exact zero_pow (by omega)

/-- **Exact at 1**: `lin(1) = 1`. -/
theorem lin_one (r : ℕ) (xs : List ℚ) (hk : knotsOK xs = true) :
    linMax (coeffs r xs) 1 = 1 := by
  obtain ⟨s, _, _, h2, _, h4, h6, h5⟩ := lin_eq_chord r xs hk 1 (by norm_num) (le_refl 1)
  have hs : s.2 = 1 := le_antisymm h6 h4
  rw [h5, ← hs, chord_right r s.1 s.2 (ne_of_lt h2), hs, one_pow]

/-- **Overestimate bound**: on `[0,1]`, `lin(x) - x^r` is at most the chord-vs-tangent gap
    `q^r - T_p(q)` of the segment `[p, q]` containing `x` (with the knots the code computes,
    `q^r - T_p(q) = eps · q^(r-1)`: its stated tolerance), hence at most the largest such gap. -/
theorem lin_overestimate (r : ℕ) (xs : List ℚ) (hk : knotsOK xs = true) (x : ℚ) (hx0 : 0 ≤ x) (hx1 : x ≤ 1) :
    ∃ s ∈ segs xs, s.1 ≤ x ∧ x ≤ s.2 ∧ linMax (coeffs r xs) x - x ^ r ≤ segGap r s.1 s.2 := by
  obtain ⟨s, hs, h1, h2, h3, h4, _, h5⟩ := lin_eq_chord r xs hk x hx0 hx1
  exact ⟨s, hs, h3, h4, by rw [h5]; exact chord_sub_pow_le_segGap r s.1 s.2 x h1 h2 h3 h4⟩

theorem segGaps_eq_map (r : ℕ) (xs : List ℚ) : segGaps r xs = (segs xs).map fun s => segGap r s.1 s.2 := by
  induction xs with
  | nil => rfl
  | cons p rest ih =>
    cases rest with
    | nil => rfl
    | cons q rest' => simp only [segGaps, segs, List.map_cons, ih]

/-- uniform form: any number bounding every segment gap of the table bounds the overestimate -/
theorem lin_overestimate_le (r : ℕ) (xs : List ℚ) (hk : knotsOK xs = true) (tol : ℚ)
    (htol : ∀ g ∈ segGaps r xs, g ≤ tol) (x : ℚ) (hx0 : 0 ≤ x) (hx1 : x ≤ 1) :
    linMax (coeffs r xs) x - x ^ r ≤ tol := by
  obtain ⟨s, hs, _, _, h⟩ := lin_overestimate r xs hk x hx0 hx1
  refine le_trans h (htol _ ?_)
  rw [segGaps_eq_map]; exact List.mem_map.2 ⟨s, hs, rfl⟩

/-- **Convex** (a maximum of affine functions). -/
theorem lin_convex (cs : List (ℚ × ℚ)) (x y t : ℚ) (ht0 : 0 ≤ t) (ht1 : t ≤ 1) :
    linMax cs (t * x + (1 - t) * y) ≤ t * linMax cs x + (1 - t) * linMax cs y :=
  linMax_convex cs x y t ht0 ht1

/-- **Non-decreasing**: every chord of a valid knot vector has a non-negative slope. -/
theorem lin_mono (r : ℕ) (xs : List ℚ) (hk : knotsOK xs = true) (x y : ℚ) (hxy : x ≤ y) :
    linMax (coeffs r xs) x ≤ linMax (coeffs r xs) y := by
  obtain ⟨q, rest, rfl, hinc, _⟩ := knotsOK_shape hk
  apply linMax_mono _ x y _ hxy
  intro l hl
  rw [coeffs_eq_map] at hl
  obtain ⟨s, hs, rfl⟩ := List.mem_map.1 hl
  obtain ⟨h1, h2⟩ := segs_right 0 (q :: rest) hinc s hs
  exact slope_nonneg r s.1 s.2 h1 h2

/-- non-vacuity: a 3-knot table for order 2; values at 0, 1/4 (interior), 1/2 (knot), 1 -/
example :
    knotsOK [0, 1/2, 1] = true
      ∧ coeffs 2 [0, 1/2, 1] = [(1/2, 0), (3/2, -1/2)]
      ∧ linMax (coeffs 2 [0, 1/2, 1]) 0 = 0 ∧ linMax (coeffs 2 [0, 1/2, 1]) (1/4) = 1/8
      ∧ linMax (coeffs 2 [0, 1/2, 1]) (1/2) = 1/4 ∧ linMax (coeffs 2 [0, 1/2, 1]) 1 = 1
      ∧ segGaps 2 [0, 1/2, 1] = [1/4, 1/4] := by
  decide +kernel

end RtcVerif.C17
