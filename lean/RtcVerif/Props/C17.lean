import RtcVerif.Model.C17LinOrder
import RtcVerif.Proofs.C17Chord
import RtcVerif.Model.C17Vector
import RtcVerif.Proofs.C17Vector
import RtcVerif.Model.C17SinglePass
import RtcVerif.Proofs.C17SinglePass
import RtcVerif.Model.C17Code
import Mathlib.Algebra.Order.Field.Rat
import Mathlib.Algebra.Order.AbsoluteValue.Basic
import Mathlib.Tactic.Linarith
import Mathlib.Tactic.Ring
/-!
# C17 — equivalent formulations give equal optima

Formulation-level theorems: the auxiliary-variable form of `|f/n|`, the piecewise-linear majorant
of `eps^order` (for ANY knot vector `0 = x_0 < … < x_K = 1`, any integer order), and the
vector-goal = scalar-goals equality of the objective model (see `Props/C17Vector` part below).
The runtime equivalences (caching QP front-end, map modes, re-solve) have no logic model beyond
"same rows" and are decided by the differential runs of the harness.
-/
namespace RtcVerif.C17

/-! ## absolute value through an auxiliary variable -/

/-- the two rows and the bound of the converted goal say exactly `a ≥ |f/n|` -/
theorem min_abs_feasible_iff (f n a : ℚ) : minAbsFeasible f n a = true ↔ |f / n| ≤ a := by
  simp only [minAbsFeasible, Bool.and_eq_true, decide_eq_true_eq]
  have e1 : a + 1 * f / n = a + f / n := by ring
  have e2 : a + -1 * f / n = a - f / n := by ring
  rw [e1, e2, abs_le]
  constructor
  · rintro ⟨⟨h1, h2⟩, _⟩; constructor <;> linarith
  · rintro ⟨h1, h2⟩
    refine ⟨⟨by linarith, by linarith⟩, ?_⟩
    have := abs_nonneg (f / n)
    have : |f / n| ≤ a := abs_le.2 ⟨h1, h2⟩
    linarith [abs_nonneg (f / n)]

/-- **`min { w·a | a ≥ f/n, a ≥ -f/n } = w·|f/n|`** for `w > 0`: the value `|f/n|` is feasible and
    no feasible `a` gives a smaller objective. -/
theorem min_abs_value (w f n : ℚ) (hw : 0 < w) :
    minAbsFeasible f n |f / n| = true
      ∧ ∀ a, minAbsFeasible f n a = true → w * |f / n| ≤ w * a := by
  refine ⟨(min_abs_feasible_iff f n _).2 (le_refl _), ?_⟩
  intro a ha
  exact mul_le_mul_of_nonneg_left ((min_abs_feasible_iff f n a).1 ha) (le_of_lt hw)

/-- strictness: for `w > 0` a feasible `a` attains the minimum only at `|f/n|` (unique minimiser) -/
theorem min_abs_unique (w f n a : ℚ) (hw : 0 < w) (ha : minAbsFeasible f n a = true)
    (hmin : w * a ≤ w * |f / n|) : a = |f / n| := by
  have h1 := (min_abs_feasible_iff f n a).1 ha
  have h2 : a ≤ |f / n| := le_of_mul_le_mul_left hmin hw
  exact le_antisymm h2 h1

example : minAbsFeasible (-6) 2 3 = true ∧ minAbsFeasible (-6) 2 (5/2) = false := by decide +kernel

/-- **`minAbs_relaxation_scaled`**: the bound retained for the converted goal (function = auxiliary
    variable `a = |f|/n`, nominal 1, relaxation `r/n`) after its priority, `a ≤ (a* + r/n)/1 + cr`, is
    the original goal's bound in physical units: `|f| ≤ |f*| + r + n·cr`. -/
theorem minAbs_relaxation_scaled (f fstar r n cr : ℚ) (hn : 0 < n) :
    |f| / n ≤ retainedUpper (|fstar| / n) (convertedRelaxation r n) 1 cr ↔ |f| ≤ |fstar| + r + n * cr := by
  unfold retainedUpper convertedRelaxation
  have e : (|fstar| / n + r / n) / 1 + cr = (|fstar| + r + n * cr) / n := by
    field_simp
  rw [e, div_le_div_iff_of_pos_right hn]

/-- without the division (relaxation kept in physical units on the scaled variable) the retained bound
    is `|f| ≤ |f*| + r·n + n·cr`: a different constraint whenever `n ≠ 1` and `r ≠ 0` -/
theorem minAbs_relaxation_unscaled_differs (f fstar r n cr : ℚ) (hn : 0 < n) :
    |f| / n ≤ retainedUpper (|fstar| / n) r 1 cr ↔ |f| ≤ |fstar| + r * n + n * cr := by
  unfold retainedUpper
  have e : (|fstar| / n + r) / 1 + cr = (|fstar| + r * n + n * cr) / n := by
    field_simp
  rw [e, div_le_div_iff_of_pos_right hn]

example : retainedUpper (|(0:ℚ)| / 10) (convertedRelaxation (1/2) 10) 1 0 = 1/20
    ∧ retainedUpper (|(0:ℚ)| / 10) (1/2) 1 0 = 1/2 := by
  norm_num [retainedUpper, convertedRelaxation]

/-! ## linearised order: `lin(x) = max_i (a_i x + b_i)` over the chords of `x^r` -/

/-- the optimiser's variable (`lin ≥ a_i·eps + b_i` for all `i`, minimised) takes the value `linMax` -/
theorem lin_is_least_feasible (cs : List (ℚ × ℚ)) (x : ℚ) (hne : cs ≠ []) :
    (∀ l ∈ cs, lineAt l x ≤ linMax cs x)
      ∧ ∀ v, (∀ l ∈ cs, lineAt l x ≤ v) → linMax cs x ≤ v :=
  ⟨le_linMax cs x, fun v hv => linMax_le cs x v hne hv⟩

/-- shape of a valid knot vector -/
theorem knotsOK_shape {xs : List ℚ} (h : knotsOK xs = true) :
    ∃ q rest, xs = 0 :: q :: rest ∧ increasing xs = true ∧ lastD xs 0 = 1 := by
  match xs, h with
  | x0 :: q :: rest, h =>
    simp only [knotsOK, Bool.and_eq_true, decide_eq_true_eq] at h
    obtain ⟨⟨h0, h1⟩, h2⟩ := h
    subst h0
    exact ⟨q, rest, rfl, h2, h1⟩

/-- **Own chord**: for `0 ≤ x ≤ 1`, `lin(x)` is the chord of a segment `[p, q] ∋ x` of the table. -/
theorem lin_eq_chord (r : ℕ) (xs : List ℚ) (hk : knotsOK xs = true) (x : ℚ) (hx0 : 0 ≤ x) (hx1 : x ≤ 1) :
    ∃ s ∈ segs xs, 0 ≤ s.1 ∧ s.1 < s.2 ∧ s.1 ≤ x ∧ x ≤ s.2 ∧ s.2 ≤ 1
      ∧ linMax (coeffs r xs) x = chord r s.1 s.2 x := by
  obtain ⟨q, rest, rfl, hinc, hlast⟩ := knotsOK_shape hk
  obtain ⟨s, hs, h1, h2, h3, h4, h5⟩ :=
    linMax_eq_own_chord r x rest 0 q hinc (le_refl 0) hx0 (by rw [hlast]; exact hx1)
  have h6 := (segs_le_last 0 (q :: rest) hinc).2 s hs
  rw [hlast] at h6
  exact ⟨s, hs, h1, h2, h3, h4, h6, h5⟩

/-- **Never underestimates**: `lin(x) ≥ x^r` on `[0, 1]`. -/
theorem lin_ge_pow (r : ℕ) (xs : List ℚ) (hk : knotsOK xs = true) (x : ℚ) (hx0 : 0 ≤ x) (hx1 : x ≤ 1) :
    x ^ r ≤ linMax (coeffs r xs) x := by
  obtain ⟨s, _, h1, h2, h3, h4, _, h5⟩ := lin_eq_chord r xs hk x hx0 hx1
  rw [h5]; exact chord_ge_inside r s.1 s.2 x h1 h2 h3 h4

/-- **Exact at 0**: `lin(0) = 0` (order ≥ 1). -/
theorem lin_zero (r : ℕ) (hr : 1 ≤ r) (xs : List ℚ) (hk : knotsOK xs = true) :
    linMax (coeffs r xs) 0 = 0 := by
  obtain ⟨s, _, h1, _, h3, _, _, h5⟩ := lin_eq_chord r xs hk 0 (le_refl 0) (by norm_num)
  have hs : s.1 = 0 := le_antisymm h3 h1
  rw [h5, hs, chord_left]
  exact zero_pow (by omega)

/-- **Exact at 1**: `lin(1) = 1`. -/
theorem lin_one (r : ℕ) (xs : List ℚ) (hk : knotsOK xs = true) :
    linMax (coeffs r xs) 1 = 1 := by
  obtain ⟨s, _, _, h2, _, h4, h6, h5⟩ := lin_eq_chord r xs hk 1 (by norm_num) (le_refl 1)
  have hs : s.2 = 1 := le_antisymm h6 h4
  rw [h5, ← hs, chord_right r s.1 s.2 (ne_of_lt h2), hs, one_pow]

/-- **Overestimate bound**: on `[0,1]`, `lin(x) - x^r` is at most the chord-vs-tangent gap
    `q^r - T_p(q)` of the segment `[p, q]` containing `x` (with the knots the code computes,
    `q^r - T_p(q) = eps · q^(r-1)`: its stated tolerance), hence at most the largest such gap. -/
theorem lin_overestimate (r : ℕ) (xs : List ℚ) (hk : knotsOK xs = true) (x : ℚ) (hx0 : 0 ≤ x) (hx1 : x ≤ 1) :
    ∃ s ∈ segs xs, s.1 ≤ x ∧ x ≤ s.2 ∧ linMax (coeffs r xs) x - x ^ r ≤ segGap r s.1 s.2 := by
  obtain ⟨s, hs, h1, h2, h3, h4, _, h5⟩ := lin_eq_chord r xs hk x hx0 hx1
  exact ⟨s, hs, h3, h4, by rw [h5]; exact chord_sub_pow_le_segGap r s.1 s.2 x h1 h2 h3 h4⟩

theorem segGaps_eq_map (r : ℕ) (xs : List ℚ) : segGaps r xs = (segs xs).map fun s => segGap r s.1 s.2 := by
  induction xs with
  | nil => rfl
  | cons p rest ih =>
    cases rest with
    | nil => rfl
    | cons q rest' => simp only [segGaps, segs, List.map_cons, ih]

/-- uniform form: any number bounding every segment gap of the table bounds the overestimate -/
theorem lin_overestimate_le (r : ℕ) (xs : List ℚ) (hk : knotsOK xs = true) (tol : ℚ)
    (htol : ∀ g ∈ segGaps r xs, g ≤ tol) (x : ℚ) (hx0 : 0 ≤ x) (hx1 : x ≤ 1) :
    linMax (coeffs r xs) x - x ^ r ≤ tol := by
  obtain ⟨s, hs, _, _, h⟩ := lin_overestimate r xs hk x hx0 hx1
  refine le_trans h (htol _ ?_)
  rw [segGaps_eq_map]; exact List.mem_map.2 ⟨s, hs, rfl⟩

/-- **Convex** (a maximum of affine functions). -/
theorem lin_convex (cs : List (ℚ × ℚ)) (x y t : ℚ) (ht0 : 0 ≤ t) (ht1 : t ≤ 1) :
    linMax cs (t * x + (1 - t) * y) ≤ t * linMax cs x + (1 - t) * linMax cs y :=
  linMax_convex cs x y t ht0 ht1

/-- **Non-decreasing**: every chord of a valid knot vector has a non-negative slope. -/
theorem lin_mono (r : ℕ) (xs : List ℚ) (hk : knotsOK xs = true) (x y : ℚ) (hxy : x ≤ y) :
    linMax (coeffs r xs) x ≤ linMax (coeffs r xs) y := by
  obtain ⟨q, rest, rfl, hinc, _⟩ := knotsOK_shape hk
  apply linMax_mono _ x y _ hxy
  intro l hl
  rw [coeffs_eq_map] at hl
  obtain ⟨s, hs, rfl⟩ := List.mem_map.1 hl
  obtain ⟨h1, h2⟩ := segs_right 0 (q :: rest) hinc s hs
  exact slope_nonneg r s.1 s.2 h1 h2

/-- non-vacuity: a 3-knot table for order 2; values at 0, 1/4 (interior), 1/2 (knot), 1 -/
example :
    knotsOK [0, 1/2, 1] = true
      ∧ coeffs 2 [0, 1/2, 1] = [(1/2, 0), (3/2, -1/2)]
      ∧ linMax (coeffs 2 [0, 1/2, 1]) 0 = 0 ∧ linMax (coeffs 2 [0, 1/2, 1]) (1/4) = 1/8
      ∧ linMax (coeffs 2 [0, 1/2, 1]) (1/2) = 1/4 ∧ linMax (coeffs 2 [0, 1/2, 1]) 1 = 1
      ∧ segGaps 2 [0, 1/2, 1] = [1/4, 1/4] := by
  decide +kernel

/-! ## a vector goal and its scalar goals -/

open RtcVerif.C03 in
/-- **`vector_goal_eq_scalars`** (objective): replacing every goal of a priority by its `size`
    scalar goals (same weight / order, nominal and target column of the component) leaves the
    objective handed to the solver unchanged — including the per-component divisors `n_active`
    and the count `n_objectives` under `scale_by_problem_size`, for any number of members, steps
    and probabilities — when the two valuations assign the same value to component `c` of goal `j`
    and to the corresponding scalar goal, and every component is a goal of the same kind
    (`splitOK`: without a finite target a scalar component would be a minimisation goal). -/
theorem vector_goal_eq_scalars (sbs : Bool) (T : Nat) (probs : List Rat) (val val' : Val)
    (goals pathGoals : List Goal)
    (hok : ∀ g ∈ goals, splitOK g = true) (hokp : ∀ g ∈ pathGoals, splitOK g = true)
    (hv : valsAgree false goals val val') (hvp : valsAgree true pathGoals val val') :
    objective sbs T probs val' (splitAll goals) (splitAll pathGoals)
      = objective sbs T probs val goals pathGoals := by
  rw [objective_eq_documented, objective_eq_documented]
  unfold documented
  apply sum_map_congr'
  intro pm _
  rw [point_sum_eq pm.2 goals val val' hok hv, path_sum_eq sbs T pm.2 pathGoals val val' hokp hvp,
    nGoalsDoc_splitAll]

open RtcVerif.C03 in
/-- the number of objective entries (`n_objectives`) is the same in both formulations -/
theorem vector_goal_n_objectives (sbs : Bool) (T : Nat) (val val' : Val) (m : Nat) (goals pathGoals : List Goal) :
    nObjectives sbs T val' m (splitAll goals) (splitAll pathGoals) = nObjectives sbs T val m goals pathGoals := by
  rw [nObjectives_eq, nObjectives_eq, nGoalsDoc_splitAll]

open RtcVerif.C03 in
/-- the scalar goal of component `c` sees exactly column `c` of the targets, so its soft-constraint
    rows and active steps are those of the component -/
theorem vector_goal_component_targets (g : Goal) (c i : Nat) :
    (compGoal g c).tmin.entry 0 i = g.tmin.entry c i ∧ (compGoal g c).tmax.entry 0 i = g.tmax.entry c i
      ∧ (compGoal g c).activeAt 0 i = g.activeAt c i :=
  ⟨compTarget_entry g.tmin c i, compTarget_entry g.tmax c i, compGoal_activeAt g c i⟩

open RtcVerif.C03 in
/-- non-vacuity: a size-2 path goal with a 2-D Timeseries target (a NaN gap in the second column) and
    a size-2 point minimisation goal with per-component nominals, two members, scaling on:
    the hypotheses hold for a concrete pair of valuations and the common objective is non-trivial -/
example :
    let g1 : Goal := { size := 2, weight := 2, order := 1, nominal := [10, 4],
                       tmin := .scalar .nan, tmax := .scalar .nan, critical := false }
    let g2 : Goal := { size := 2, weight := 1, order := 2, nominal := [1],
                       tmin := .ts2 [[.fin 1, .fin 0], [.fin 2, .nan], [.nan, .fin 3]],
                       tmax := .scalar .nan, critical := false }
    let val : Val := fun isPath j c m i => ((1 + j + 2 * c + m + i : Nat) : Rat) / (if isPath then 4 else 1)
    let val' : Val := fun isPath j _ m i => ((1 + 2 * j + m + i : Nat) : Rat) / (if isPath then 4 else 1)
    splitOK g1 = true ∧ splitOK g2 = true
      ∧ (quads 0 0 [g2]).map (fun q => (q.2.1, q.2.2.1, q.2.2.2)) = [(0, 0, 0), (0, 1, 1)]
      ∧ objective true 3 [1/4, 3/4] val' (splitAll [g1]) (splitAll [g2]) = 1667/1280
      ∧ objective true 3 [1/4, 3/4] val [g1] [g2] = 1667/1280 := by
  decide +kernel

/-! ## single pass (both methods) and multi-pass with kept soft constraints -/

open RtcVerif.C03 in
/-- **`update_bounds_method_eq_append`**: at every priority, single-pass method 2 (all objective rows
    pre-allocated with bounds `(-inf, +inf)`, updated after each priority) has exactly the feasible
    set of method 1 (objective rows appended one by one). -/
theorem update_bounds_method_eq_append (P : Plan) (k : Nat) (x : List Rat) :
    rowsFeasible (updateRows P k) x = rowsFeasible (appendRows P k) x := by
  simp only [updateRows, appendRows, rowsFeasible_append, updateObjRows, solvedObjRows]
  have := updateObj_aux (P.objRow.zip P.bnd) 0 k x
  simp only [Nat.sub_zero] at this
  rw [this]

open RtcVerif.C03 in
/-- every point feasible for the single-pass problem of priority `k` is feasible for the keep-soft
    multi-pass problem of that priority (its rows are a subset: soft rows of later priorities are
    the only extra rows) -/
theorem single_pass_feasible_imp_keep_soft (P : Plan) (k : Nat) (x : List Rat)
    (h : rowsFeasible (appendRows P k) x = true) : rowsFeasible (keepRows P k) x = true := by
  rw [rowsFeasible_iff] at h ⊢
  intro r hr
  apply h r
  simp only [keepRows, appendRows, List.mem_append, List.mem_flatten] at hr ⊢
  rcases hr with (hr | ⟨l, hl, hrl⟩) | hr
  · exact Or.inl (Or.inl hr)
  · exact Or.inl (Or.inr ⟨l, List.mem_of_mem_take hl, hrl⟩)
  · exact Or.inr hr

open RtcVerif.C03 in
/-- a soft row whose violation variable is set to 1 is the function-range row:
    `(f - 1·(bound - target) - target)/nominal = (f - bound)/nominal`; rows that do not mention the
    variable are untouched.  With the function range implied by the hard bounds (the documented
    hypothesis) the extra rows of the single-pass formulation therefore never cut off a point of the
    keep-soft formulation: its not-yet-active epsilons can be put to 1. -/
theorem soft_row_at_eps_one (f : SRow) (f0 : Rat) (e : Nat) (bound target nominal : Rat) (lo hi : EVal)
    (x : List Rat) (he : e < x.length) (hf : ∀ jv ∈ f, jv.1 ≠ e) :
    let r := softRow f f0 e bound target nominal lo hi
    rowDot r.coefs (setAt x e 1) + r.b0 = (rowDot f x + f0 - bound) / nominal := by
  simp only [softRow, rowDot_append, rowDot_scale, rowDot, getD_setAt_eq x e 1 he,
    rowDot_setAt_of_not_mem f x e 1 hf]
  ring

open RtcVerif.C03 in
/-- **`single_pass_eq_keep_soft`** (constraint sets; the objectives are the same function of the
    priority's own goals by C03).  Let the soft rows of the priorities after `k` be those of the
    target goals `later` (function `f·x + f0`, violation variable `e`, range `[m, M]`).  Under the
    documented hypothesis — at the point `x` every later goal's function lies in its range (implied by
    the hard bounds), the later epsilons are distinct, have positive nominals and occur in no other
    row or goal function — every point `x` feasible for the keep-soft problem of priority `k` becomes
    feasible for the single-pass problem by putting the not-yet-active epsilons to 1 and changing no
    other coordinate.  Together with `single_pass_feasible_imp_keep_soft` the two feasible sets have
    the same projection onto all other coordinates; without the range hypothesis the formulations
    genuinely differ (last `example`). -/
theorem single_pass_eq_keep_soft (P : Plan) (k : Nat) (x : List Rat) (later : List Later)
    (hlater : (P.soft.drop (k + 1)).flatten = later.flatMap Later.rows)
    (hkeep : rowsFeasible (keepRows P k) x = true)
    (hc : ∀ g ∈ later, 0 < g.nominal ∧ g.e < x.length ∧ g.m ≤ rowDot g.f x + g.f0 ∧ rowDot g.f x + g.f0 ≤ g.M)
    (hd : ∀ g ∈ later, ∀ r ∈ keepRows P k, ∀ jv ∈ r.coefs, jv.1 ≠ g.e)
    (hff : ∀ g ∈ later, ∀ g' ∈ later, ∀ jv ∈ g'.f, jv.1 ≠ g.e)
    (hdist : distinctEps later) :
    rowsFeasible (appendRows P k) (setAll x later) = true
      ∧ (setAll x later).length = x.length
      ∧ ∀ j, (∀ g ∈ later, g.e ≠ j) → (setAll x later).getD j 0 = x.getD j 0 := by
  refine ⟨?_, setAll_length later x, fun j hj => getD_setAll later x j hj⟩
  have h := extend_later later (keepRows P k) x hkeep hc hd hff hdist
  rw [rowsFeasible_iff] at h ⊢
  intro r hr
  apply h r
  simp only [appendRows, keepRows, List.mem_append] at hr ⊢
  rw [flatten_take_drop P.soft (k + 1), List.mem_append, hlater] at hr
  rcases hr with (hr | hr | hr) | hr
  · exact Or.inl (Or.inl (Or.inl hr))
  · exact Or.inl (Or.inl (Or.inr hr))
  · exact Or.inr hr
  · exact Or.inl (Or.inr hr)

open RtcVerif.C03 in
/-- non-vacuity: two priorities (`x₀` model variable, `x₁`, `x₂` the epsilons).  At priority index 1
    method 2 carries one more (vacuous) row than method 1 and accepts / rejects the same points; at
    priority index 0 the point `(-1, 1/4, 0)` is keep-soft feasible, violates the later goal's soft row
    in the single-pass problem, satisfies the hypotheses of `single_pass_eq_keep_soft`, and becomes
    single-pass feasible with `x₂ := 1`. -/
example :
    let soft0 : Row := softRow [(0, 1)] 0 1 (-10) 2 1 (.fin 0) .pinf
    let g : Later := { f := [(0, 1)], f0 := 0, e := 2, m := -10, M := 10, tmin := 5, tmax := 8, nominal := 1 }
    let P : Plan := { base := [{ coefs := [(0, 1)], b0 := 0, lo := .fin (-10), hi := .fin 10 }],
                      soft := [[soft0], g.rows],
                      objRow := [{ coefs := [(1, 1)], b0 := 0, lo := .ninf, hi := .pinf },
                                 { coefs := [(2, 1)], b0 := 0, lo := .ninf, hi := .pinf }],
                      bnd := [(.ninf, .fin (1/4)), (.ninf, .fin 0)] }
    (updateRows P 1).length = 6 ∧ (appendRows P 1).length = 5 ∧ (keepRows P 0).length = 2
      ∧ rowsFeasible (updateRows P 1) [-1, 1/4, 1] = true ∧ rowsFeasible (appendRows P 1) [-1, 1/4, 1] = true
      ∧ rowsFeasible (updateRows P 1) [-1, 1/2, 1] = false ∧ rowsFeasible (appendRows P 1) [-1, 1/2, 1] = false
      ∧ (P.soft.drop 1).flatten = [g].flatMap Later.rows
      ∧ rowsFeasible (keepRows P 0) [-1, 1/4, 0] = true ∧ rowsFeasible (appendRows P 0) [-1, 1/4, 0] = false
      ∧ ((keepRows P 0).all fun r => r.coefs.all fun jv => jv.1 != g.e) = true
      ∧ g.m ≤ rowDot g.f [-1, 1/4, 0] + g.f0 ∧ rowDot g.f [-1, 1/4, 0] + g.f0 ≤ g.M
      ∧ setAll [-1, 1/4, 0] [g] = [-1, 1/4, 1]
      ∧ rowsFeasible (appendRows P 0) (setAll [-1, 1/4, 0] [g]) = true := by
  decide +kernel

open RtcVerif.C03 in
/-- without the range hypothesis the formulations differ: a later goal whose function range
    `[0, 10]` is NOT implied by the hard bound `x₀ ≥ -10` cuts off the keep-soft feasible point
    `x₀ = -1` for every value of its epsilon in `[0, 1]` (checked at the end points; the row is affine) -/
example :
    let g : Later := { f := [(0, 1)], f0 := 0, e := 1, m := 0, M := 10, tmin := 5, tmax := 8, nominal := 1 }
    let P : Plan := { base := [{ coefs := [(0, 1)], b0 := 0, lo := .fin (-10), hi := .fin 10 }],
                      soft := [[], g.rows], objRow := [], bnd := [] }
    rowsFeasible (keepRows P 0) [-1, 0] = true
      ∧ rowsFeasible (appendRows P 0) [-1, 0] = false ∧ rowsFeasible (appendRows P 0) [-1, 1] = false := by
  decide +kernel

/-! ## the kernels in the shape of the source (targets of the generated modules `Gen/C17*.lean`) -/

/-- the array arithmetic of `_get_linear_coefficients` yields the chord table the majorant theorems are about -/
theorem code_table_is_chord_table (r : ℕ) (xs : List ℚ) : coeffsCode r xs = coeffs r xs :=
  coeffsCode_eq r xs

/-- a row `lin - a·eps - b ∈ [0, ∞)` of the linearised goal says `a·eps + b ≤ lin` -/
theorem linRow_iff (ab : ℚ × ℚ) (eps lin : ℚ) : linRowFeasible ab eps lin = true ↔ lineAt ab eps ≤ lin := by
  simp only [linRowFeasible, lineAt, decide_eq_true_eq]
  constructor <;> intro h <;> linarith

/-- the retained objective row admits the achieved value (for a non-negative relaxation) -/
theorem objBnd_contains (fix : Bool) (v cr : ℚ) (hcr : 0 ≤ cr) :
    C03.inBnd (objBnd fix v cr).1 (objBnd fix v cr).2 v = true := by
  cases fix <;> simp [objBnd, C03.inBnd, EVal.le, hcr]

/-- **re-solve = fresh instance** on the reset attributes: after the reset at the start of `optimize()`
    every reset attribute has its fresh value whatever the previous state was -/
theorem optimize_reset_independent (reset prev prev' : List (String × Fresh)) (k : String)
    (hk : (reset.find? fun kv => kv.1 == k).isSome = true) :
    lookup (applyReset reset prev) k = lookup (applyReset reset prev') k := by
  unfold lookup applyReset
  rw [List.find?_append, List.find?_append]
  cases h : reset.find? fun kv => kv.1 == k with
  | none => simp [h] at hk
  | some a => simp

example : lookup (applyReset gpmReset [("__constraint_store", .emptyList), ("other", .zero)]) "__constraint_store"
      = some .perMember
    ∧ lookup (applyReset gpmReset [("__constraint_store", .emptyList), ("other", .zero)]) "other" = some .zero := by
  decide

end RtcVerif.C17
