import RtcVerif.Model.C18Homotopy
import RtcVerif.Proofs.C18Homotopy
import Mathlib.Tactic.Linarith
import Mathlib.Tactic.NormNum
import Mathlib.Algebra.Order.Field.Rat
/-!
# C18 — a successful homotopy run has solved the original problem (theta = 1)

All theorems are about `optimize o l` (model of `HomotopyMixin.optimize`, repaired loop body
`step`), for EVERY option triple `o = (theta_start, delta_theta_0, delta_theta_min)` with
`delta_theta_0 > 0` and EVERY outcome list `l` of the inner solves (unbounded length); the log
`s.solves` is newest first.  `optimize o l = some (s, r)`: `r = some b` the run returned `b`,
`r = none` the outcome list was exhausted while the loop was still running.
Helper lemmas: `Proofs/C18Homotopy.lean`.
-/
namespace RtcVerif.C18

/-- The loop body never runs iff `theta_start > 1`; then (and only then) `optimize` raises
    (`return success` with `success` unbound). -/
theorem C18_raises_iff_start_beyond_one (o : Opts) (l : List Bool) :
    optimize o l = none ↔ 1 < o.thetaStart := by
  unfold optimize optimizeWith
  split
  · rename_i h; simp only [reduceCtorEq, false_iff, not_lt]; exact h
  · rename_i h; simp only [true_iff]; exact not_le.1 h

/-- **Success means theta = 1**: a run that returns `True` made its last solve at theta = 1
    exactly, that solve succeeded, and the stored (last accepted) results are those of theta = 1. -/
theorem C18_success_means_theta_one (o : Opts) (l : List Bool) (s : St) (hd : 0 < o.delta0)
    (h : optimize o l = some (s, some true)) :
    s.acc = some 1 ∧ lastAcc s.solves = some 1 ∧
      ∃ e t, s.solves = e :: t ∧ e.theta = 1 ∧ e.ok = true := by
  obtain ⟨h1, hrun⟩ := optimize_some h
  obtain ⟨_, _, _, hacc, hfin⟩ := run_spec o l (init o) (inv_init o h1 hd)
  rw [hrun] at hacc hfin
  obtain ⟨e, t, hs, hok, hth, _⟩ := hfin true rfl
  have hla : lastAcc s.solves = some 1 := by
    rw [hs, lastAcc_cons, hok, if_pos rfl, hth rfl]
  exact ⟨hacc.trans hla, hla, e, t, hs, hth rfl, hok⟩

/-- **Theta never exceeds 1** (and never drops below `theta_start`), at every solve of every
    run, finished or not. -/
theorem C18_never_exceeds_one (o : Opts) (l : List Bool) (s : St) (r : Option Bool)
    (hd : 0 < o.delta0) (h : optimize o l = some (s, r)) :
    ∀ e ∈ s.solves, o.thetaStart ≤ e.theta ∧ e.theta ≤ 1 := by
  obtain ⟨h1, hrun⟩ := optimize_some h
  obtain ⟨hlog, _⟩ := run_spec o l (init o) (inv_init o h1 hd)
  rw [hrun] at hlog
  intro e he
  obtain ⟨pre, t, hs⟩ := List.append_of_mem he
  have := LogOK.entry pre e t (hs ▸ hlog)
  exact ⟨this.1, this.2.1⟩

/-- **Theta increases only after a success**: for consecutive solves `p` then `e`,
    `e.theta > p.theta` iff `p` succeeded, and then `e.theta = min (p.theta + delta) 1`
    (the increment is clamped at 1, otherwise unchanged). -/
theorem C18_increase_only_after_success (o : Opts) (l : List Bool) (s : St) (r : Option Bool)
    (hd : 0 < o.delta0) (h : optimize o l = some (s, r))
    (pre : List Solve) (e p : Solve) (t : List Solve) (hs : s.solves = pre ++ e :: p :: t) :
    (p.theta < e.theta ↔ p.ok = true) ∧
    (p.ok = true → e.theta = min (p.theta + p.delta) 1 ∧ e.delta = min p.delta (1 - p.theta)) := by
  obtain ⟨h1, hrun⟩ := optimize_some h
  obtain ⟨hlog, _⟩ := run_spec o l (init o) (inv_init o h1 hd)
  rw [hrun] at hlog
  have he := LogOK.entry pre e (p :: t) (hs ▸ hlog)
  obtain ⟨_, _, _, _, _, hok, hfail⟩ := he
  refine ⟨⟨?_, fun hp => (hok hp).2.2.2⟩, fun hp => ⟨(hok hp).2.1, (hok hp).2.2.1⟩⟩
  intro hlt
  by_contra hne
  have hf : p.ok = false := by simpa using hne
  have := (hfail hf).2.2.1
  linarith

/-- **Step back with a halved increment after a failure**: if `p` failed and `e` is the next
    solve, then with `a` the last accepted theta, `p.theta = a + delta`, `e.theta = a + delta/2`,
    `e.delta = delta/2`; in particular `a < e.theta < p.theta`. -/
theorem C18_step_back_halves (o : Opts) (l : List Bool) (s : St) (r : Option Bool)
    (hd : 0 < o.delta0) (h : optimize o l = some (s, r))
    (pre : List Solve) (e p : Solve) (t : List Solve) (hs : s.solves = pre ++ e :: p :: t)
    (hp : p.ok = false) :
    ∃ a, lastAcc t = some a ∧ p.theta = a + p.delta ∧ e.theta = a + p.delta / 2 ∧
      e.delta = p.delta / 2 ∧ a < e.theta ∧ e.theta < p.theta ∧ o.deltaMin ≤ e.delta := by
  obtain ⟨h1, hrun⟩ := optimize_some h
  obtain ⟨hlog, _⟩ := run_spec o l (init o) (inv_init o h1 hd)
  rw [hrun] at hlog
  have he := LogOK.entry pre e (p :: t) (hs ▸ hlog)
  have hpE := LogOK.entry (pre ++ [e]) p t (by rw [hs] at hlog; simpa using hlog)
  obtain ⟨_, _, hedpos, _, ⟨a, hla, _, heth, _⟩, _, hfail⟩ := he
  obtain ⟨hth, hdl, hlt, hmin⟩ := hfail hp
  rw [lastAcc_cons, hp] at hla
  simp only [Bool.false_eq_true, if_false] at hla
  -- `p` is not the first solve, so it is itself `accepted + delta`
  obtain ⟨_, _, _, hpm⟩ := hpE
  cases t with
  | nil => simp [lastAcc] at hla
  | cons q t' =>
    simp only at hpm
    obtain ⟨_, ⟨a', hla', _, hpth, _⟩, _⟩ := hpm
    have : a' = a := by rw [hla] at hla'; exact (Option.some.inj hla').symm
    subst this
    refine ⟨a', hla, hpth, ?_, hdl, ?_, hlt, by rw [hdl]; exact hmin⟩
    · rw [heth, hdl]
    · rw [heth]; linarith

/-- **Seeded with the last accepted solution**: the first solve runs at `theta_start` with the
    base seed; every later solve runs at `theta > theta_start`, so `HomotopyMixin.seed` overwrites
    the seed with the stored results, which exist (never the `unset` branch) and are those of the
    last accepted solve before it. -/
theorem C18_seeded_with_last_accepted (o : Opts) (l : List Bool) (s : St) (r : Option Bool)
    (hd : 0 < o.delta0) (h : optimize o l = some (s, r))
    (pre : List Solve) (e : Solve) (t : List Solve) (hs : s.solves = pre ++ e :: t) :
    (t = [] → e.theta = o.thetaStart ∧ e.delta = o.delta0 ∧ e.seed = .base) ∧
    (t ≠ [] → o.thetaStart < e.theta ∧
        ∃ a, lastAcc t = some a ∧ e.seed = .stored a ∧ a < e.theta) := by
  obtain ⟨h1, hrun⟩ := optimize_some h
  obtain ⟨hlog, _⟩ := run_spec o l (init o) (inv_init o h1 hd)
  rw [hrun] at hlog
  have he := LogOK.entry pre e t (hs ▸ hlog)
  obtain ⟨_, _, hdpos, hm⟩ := he
  constructor
  · intro ht; subst ht; exact hm
  · intro ht
    obtain ⟨q, t', rfl⟩ := List.exists_cons_of_ne_nil ht
    simp only at hm
    obtain ⟨hlt, ⟨a, hla, hseed, hth, _⟩, _⟩ := hm
    exact ⟨hlt, a, hla, hseed, by rw [hth]; linarith⟩

/-- The results stored by the mixin (`self.__results`) are, at every point, those of the last
    accepted solve of the log. -/
theorem C18_stored_results_are_last_accepted (o : Opts) (l : List Bool) (s : St) (r : Option Bool)
    (hd : 0 < o.delta0) (h : optimize o l = some (s, r)) : s.acc = lastAcc s.solves := by
  obtain ⟨h1, hrun⟩ := optimize_some h
  obtain ⟨_, _, _, hacc, _⟩ := run_spec o l (init o) (inv_init o h1 hd)
  rw [hrun] at hacc
  exact hacc

/-- **Failure conditions** (and success condition), exactly: looking at the most recent solve
    `e` of a run, the run has ended with `False` iff `e` failed and it was the very first solve or
    the halved increment is below `delta_theta_min`; it has ended with `True` iff `e` succeeded at
    theta = 1; otherwise the loop is still running. -/
theorem C18_failure_conditions (o : Opts) (l : List Bool) (s : St) (r : Option Bool)
    (hd : 0 < o.delta0) (h : optimize o l = some (s, r))
    (e : Solve) (t : List Solve) (hs : s.solves = e :: t) :
    (r = some false ↔ e.ok = false ∧ (t = [] ∨ e.delta / 2 < o.deltaMin)) ∧
    (r = some true ↔ e.ok = true ∧ e.theta = 1) := by
  obtain ⟨h1, hrun⟩ := optimize_some h
  obtain ⟨_, _, hnone, _, hfin⟩ := run_spec o l (init o) (inv_init o h1 hd)
  rw [hrun] at hnone hfin
  simp only at hnone hfin
  cases r with
  | some b =>
    obtain ⟨e', t', hs', hok, htrue, hfalse⟩ := hfin b rfl
    rw [hs] at hs'
    obtain ⟨rfl, rfl⟩ := List.cons.inj hs'
    cases b
    · refine ⟨⟨fun _ => ⟨hok, hfalse rfl⟩, fun _ => rfl⟩, ⟨fun hc => by simp at hc, fun hc => ?_⟩⟩
      rw [hok] at hc; simp at hc
    · refine ⟨⟨fun hc => by simp at hc, fun hc => ?_⟩, ⟨fun _ => ⟨hok, htrue rfl⟩, fun _ => rfl⟩⟩
      rw [hok] at hc; simp at hc
  | none =>
    -- still running: the invariant holds, so the last solve did not meet a stop condition
    have hinv := hnone rfl
    have hnext := (hinv.next true).2.2.2
    rw [hs] at hnext
    simp only at hnext
    obtain ⟨_, ⟨a, hla, _, _, _⟩, hok, hfail⟩ := hnext
    refine ⟨⟨fun hc => by simp at hc, fun hc => ?_⟩, ⟨fun hc => by simp at hc, fun hc => ?_⟩⟩
    · exfalso
      obtain ⟨hf, hor⟩ := hc
      have hm := (hfail hf).2.2.2
      rcases hor with ht | hlt
      · subst ht; rw [lastAcc_cons, hf] at hla; simp [lastAcc] at hla
      · linarith
    · exfalso
      have := (hok hc.1).1
      rw [hc.2] at this
      exact lt_irrefl _ this

/-- **No early stop and no late stop**: a solve that is followed by another one did not meet a
    stop condition (a success was below 1; a failure was not the first solve and its halved
    increment was at least `delta_theta_min`). -/
theorem C18_continues_only_when_allowed (o : Opts) (l : List Bool) (s : St) (r : Option Bool)
    (hd : 0 < o.delta0) (h : optimize o l = some (s, r))
    (pre : List Solve) (e p : Solve) (t : List Solve) (hs : s.solves = pre ++ e :: p :: t) :
    (p.ok = true → p.theta < 1) ∧ (p.ok = false → t ≠ [] ∧ o.deltaMin ≤ p.delta / 2) := by
  obtain ⟨h1, hrun⟩ := optimize_some h
  obtain ⟨hlog, _⟩ := run_spec o l (init o) (inv_init o h1 hd)
  rw [hrun] at hlog
  have he := LogOK.entry pre e (p :: t) (hs ▸ hlog)
  obtain ⟨_, _, _, _, ⟨a, hla, _⟩, hok, hfail⟩ := he
  refine ⟨fun hp => (hok hp).1, fun hp => ⟨?_, (hfail hp).2.2.2⟩⟩
  rintro rfl
  rw [lastAcc_cons, hp] at hla
  simp [lastAcc] at hla

/-- **Termination, for every outcome oracle**: with `delta_theta_min > 0` the loop ends after
    finitely many solves whatever the inner solves do: any `n` with
    `(1 - theta_start) + 2 delta_0 < n * min delta_0 delta_min` outcomes suffice. -/
theorem C18_terminates (o : Opts) (hd : 0 < o.delta0) (hmin : 0 < o.deltaMin)
    (h1 : o.thetaStart ≤ 1) (f : Nat → Bool) (n : Nat)
    (hn : (1 - o.thetaStart) + 2 * o.delta0 < (n : Rat) * min o.delta0 o.deltaMin) :
    ∃ s b, optimize o (outcomes f n) = some (s, some b) := by
  have hmu : 0 < mu o := lt_min hd hmin
  have hlen : (outcomes f n).length = n := by simp [outcomes]
  have := run_terminates o hmu (outcomes f n) (init o) (inv_init o h1 hd)
    (by rw [hlen]; simpa [pot, init, mu] using hn)
  cases hr : (run step o (init o) (outcomes f n)).2 with
  | none => exact absurd hr this
  | some b =>
    refine ⟨(run step o (init o) (outcomes f n)).1, b, ?_⟩
    unfold optimize optimizeWith
    rw [if_pos h1, ← hr]

/-- **Explicit bound on the number of solves** of any run (finished or not):
    `#solves * mu ≤ (1 - theta_start) + 2 delta_0 + mu`, `mu = min delta_0 delta_min`. -/
theorem C18_solve_count_bound (o : Opts) (l : List Bool) (s : St) (r : Option Bool)
    (hd : 0 < o.delta0) (hmin : 0 < o.deltaMin) (h : optimize o l = some (s, r)) :
    (s.solves.length : Rat) * min o.delta0 o.deltaMin
      ≤ (1 - o.thetaStart) + 2 * o.delta0 + min o.delta0 o.deltaMin := by
  obtain ⟨h1, hrun⟩ := optimize_some h
  have hmu : 0 < mu o := lt_min hd hmin
  have := run_count o hmu l (init o) (inv_init o h1 hd)
  rw [hrun] at this
  simpa [pot, init, mu] using this

/-- The outcome list is consumed one entry per solve, nothing is solved after the run has ended. -/
theorem C18_one_outcome_per_solve (o : Opts) (l : List Bool) (s : St) (r : Option Bool)
    (hd : 0 < o.delta0) (h : optimize o l = some (s, r)) :
    s.solves.length ≤ l.length ∧ (r = none → s.solves.length = l.length) := by
  obtain ⟨h1, hrun⟩ := optimize_some h
  obtain ⟨_, ⟨new, hnew, hlen, hnone⟩, _⟩ := run_spec o l (init o) (inv_init o h1 hd)
  rw [hrun] at hnew hnone
  simp only [init, List.append_nil] at hnew
  rw [hnew]
  exact ⟨hlen, hnone⟩

/-- **Progress is monotone**: the thetas of the accepted solves strictly increase in time (the
    list `accs`, newest first, is strictly decreasing) — after a failure the loop never falls
    back behind a solution it has already accepted. -/
theorem C18_accepted_strictly_increasing (o : Opts) (l : List Bool) (s : St) (r : Option Bool)
    (hd : 0 < o.delta0) (h : optimize o l = some (s, r)) :
    (accs s.solves).Pairwise (· > ·) := by
  obtain ⟨h1, hrun⟩ := optimize_some h
  obtain ⟨hlog, _⟩ := run_spec o l (init o) (inv_init o h1 hd)
  rw [hrun] at hlog
  exact LogOK.accs_decreasing hlog

/-- **The linear model is left exactly once**: the `theta == 0.0` block (linear flags off,
    `clear_transcription_cache()`) runs once if some accepted solve was at theta = 0 and never
    otherwise; the flags are untouched exactly when it did not run. -/
theorem C18_cache_cleared_at_most_once (o : Opts) (l : List Bool) (s : St) (r : Option Bool)
    (hd : 0 < o.delta0) (h : optimize o l = some (s, r)) :
    s.cleared ≤ 1 ∧ (s.cleared = 1 ↔ ∃ e ∈ s.solves, e.ok = true ∧ e.theta = 0) ∧
      (s.linear = true ↔ s.cleared = 0) := by
  obtain ⟨h1, hrun⟩ := optimize_some h
  obtain ⟨hlog, _⟩ := run_spec o l (init o) (inv_init o h1 hd)
  have hc := run_cleared o l (init o) ⟨rfl, by simp [init]⟩
  rw [hrun] at hlog hc
  simp only at hc
  have hdec := LogOK.accs_decreasing hlog
  -- accepted solves at theta = 0 are the zeros of `accs`, a strictly decreasing list
  have hz : zeroAcc s.solves = ((accs s.solves).filter (fun a => decide (a = 0))).length := by
    unfold zeroAcc accs
    rw [List.filter_map, List.length_map, List.filter_filter]
    congr 1
    apply List.filter_congr
    intro e _
    simp [Bool.and_comm]
  have hle : ∀ (xs : List Rat), xs.Pairwise (· > ·) → (xs.filter (fun a => decide (a = 0))).length ≤ 1 := by
    intro xs
    induction xs with
    | nil => intro _; simp
    | cons a t ih =>
      intro hp
      have hp' := List.pairwise_cons.1 hp
      by_cases ha : a = 0
      · have : t.filter (fun a => decide (a = 0)) = [] := by
          rw [List.filter_eq_nil_iff]
          intro b hb
          have := hp'.1 b hb
          simp only [decide_eq_true_eq]
          intro hb0; rw [ha, hb0] at this; exact lt_irrefl _ this
        simp [ha, this]
      · simp only [List.filter_cons, ha, decide_false, Bool.false_eq_true, if_false]
        exact ih hp'.2
  refine ⟨by rw [hc.1, hz]; exact hle _ hdec, ?_, hc.2⟩
  rw [hc.1]
  constructor
  · intro h1
    have : 0 < zeroAcc s.solves := by omega
    unfold zeroAcc at this
    obtain ⟨e, he⟩ := List.exists_mem_of_length_pos this
    rw [List.mem_filter] at he
    simp only [Bool.and_eq_true, decide_eq_true_eq] at he
    exact ⟨e, he.1, he.2⟩
  · rintro ⟨e, he, hok, hth⟩
    have hpos : 0 < zeroAcc s.solves := by
      unfold zeroAcc
      apply List.length_pos_of_mem (a := e)
      rw [List.mem_filter]
      simp [he, hok, hth]
    have := hle _ hdec
    rw [← hz] at this
    omega

/-- **A call on a used object behaves like a call on a fresh one**: `self.__results` survives
    from an earlier `optimize()` on the same object, but a later call does not depend on it — same
    thetas, increments, outcomes and seeds at every solve (the whole log), same return value; the
    stored results afterwards are this call's last accepted ones if it accepted any.  (The stored
    results are only read when `theta > theta_start`, and then this call has already stored its own.) -/
theorem C18_call_independent_of_stored_results (o : Opts) (prev : Option Rat) (l : List Bool)
    (hd : 0 < o.delta0) :
    (optimizeFrom o prev l = none ↔ optimize o l = none) ∧
    ∀ s r, optimize o l = some (s, r) →
      ∃ s2, optimizeFrom o prev l = some (s2, r) ∧ s2.solves = s.solves ∧ s2.theta = s.theta ∧
        s2.delta = s.delta ∧ s2.acc = (match s.acc with | some a => some a | none => prev) := by
  constructor
  · unfold optimizeFrom optimizeFromWith optimize optimizeWith
    split <;> simp
  · intro s r h
    obtain ⟨h1, hrun⟩ := optimize_some h
    have hsim0 : Sim prev (init o) (initFrom o prev) := ⟨rfl, rfl, rfl, rfl⟩
    obtain ⟨hr, hsim⟩ := run_sim o prev l (init o) (initFrom o prev) (inv_init o h1 hd) hsim0
    rw [hrun] at hr hsim
    refine ⟨(run step o (initFrom o prev) l).1, ?_, hsim.solves, hsim.theta, hsim.delta, hsim.acc⟩
    unfold optimizeFrom optimizeFromWith
    rw [if_pos h1]
    simp only at hr
    rw [← hr]

/-- **Runs of a sequence are independent**: the i-th `optimize()` call of any sequence of calls on
    one object (options and outcomes per call) returns what a single call on a fresh object
    returns, with the same log; in particular every clause above holds for every call: theta
    stays in `[theta_start, 1]`, and a failing first solve ends that call with `False` after that
    single solve, whatever earlier calls left behind. -/
theorem C18_runs_independent (runs : List (Opts × List Bool)) (i : Nat) (hi : i < runs.length)
    (hd : 0 < runs[i].1.delta0) :
    ((optimizeSeq runs)[i]'(by unfold optimizeSeq; rw [seqFrom_length]; exact hi) = none
        ↔ optimize runs[i].1 runs[i].2 = none) ∧
    ∀ s r, optimize runs[i].1 runs[i].2 = some (s, r) →
      ∃ s2, (optimizeSeq runs)[i]'(by unfold optimizeSeq; rw [seqFrom_length]; exact hi) = some (s2, r) ∧
        s2.solves = s.solves ∧ s2.theta = s.theta ∧ s2.delta = s.delta := by
  obtain ⟨pv, h⟩ := seqFrom_get step runs none i hi
  unfold optimizeSeq
  rw [h]
  obtain ⟨h1, h2⟩ := C18_call_independent_of_stored_results runs[i].1 pv runs[i].2 hd
  refine ⟨h1, ?_⟩
  intro s r hs
  obtain ⟨s2, e1, e2, e3, e4, _⟩ := h2 s r hs
  exact ⟨s2, e1, e2, e3, e4⟩

/-- **Witness for the seeded variant c18h** (first-solve failure detected by "no results stored
    yet"): correct on a fresh object, but in a second call whose first solve fails the loop goes on
    below `theta_start` (here to theta = -1/2) and can even return success. -/
theorem C18_stored_results_variant_witness :
    ((seqFrom stepByResults none [(⟨0, 1, 1/100⟩, [true, true]), (⟨0, 1, 1/100⟩, [false, true, true, true, true])]).map
      (fun x => x.map (fun y => (y.2, y.1.solves.reverse.map (·.theta)))))
      = [some (some true, [0, 1]), some (some true, [0, -1/2, 0, 1/2, 1])] ∧
    ((optimizeSeq [(⟨0, 1, 1/100⟩, [true, true]), (⟨0, 1, 1/100⟩, [false, true, true, true, true])]).map
      (fun x => x.map (fun y => (y.2, y.1.solves.reverse.map (·.theta)))))
      = [some (some true, [0, 1]), some (some false, [0])] := by
  constructor <;> decide +kernel

/-- **Legacy overshoot witness (finding F3)**: the loop body before commit e603867 returns
    success after a single solve at theta = 1/2 for `theta_start = 1/2` (the increment 1 carries
    theta beyond 1 and the `while` test ends the loop with `success = True`). -/
theorem C18_legacy_overshoot_witness :
    (optimizeWith stepLegacy ⟨1/2, 1, 1/100⟩ [true]).map
        (fun r => (r.2, r.1.acc, r.1.solves.length)) = some (some true, some (1/2), 1) := by
  decide +kernel

/-- second legacy witness: `delta_theta_0 = 3/10` ends "successfully" with the last accepted
    solve at 9/10 -/
theorem C18_legacy_overshoot_witness_delta :
    (optimizeWith stepLegacy ⟨0, 3/10, 1/100⟩ [true, true, true, true]).map
        (fun r => (r.2, r.1.acc)) = some (some true, some (9/10)) := by
  decide +kernel

/-! ### non-vacuity: concrete runs of the repaired loop -/

/-- default options, outcomes T F T F T T: thetas 0, 1, 1/2, 1, 3/4, 1; success -/
example : (optimize ⟨0, 1, 1/100⟩ [true, false, true, false, true, true]).map
    (fun r => (r.2, r.1.acc, r.1.solves.reverse.map (·.theta)))
      = some (some true, some 1, [0, 1, 1/2, 1, 3/4, 1]) := by decide +kernel

/-- the former failing inputs now end at theta = 1 -/
example : (optimize ⟨1/2, 1, 1/100⟩ [true, true]).map (fun r => (r.2, r.1.acc))
    = some (some true, some 1) := by decide +kernel
example : (optimize ⟨0, 3/10, 1/100⟩ [true, true, true, true, true]).map
    (fun r => (r.2, r.1.acc, r.1.solves.reverse.map (·.theta)))
      = some (some true, some 1, [0, 3/10, 3/5, 9/10, 1]) := by decide +kernel

/-- failure because the increment would drop below the minimum -/
example : (optimize ⟨0, 1, 1/4⟩ [true, false, false, false]).map
    (fun r => (r.2, r.1.acc, r.1.solves.reverse.map (·.theta)))
      = some (some false, some 0, [0, 1, 1/2, 1/4]) := by decide +kernel

/-- failure of the very first solve -/
example : (optimize ⟨0, 1, 1/100⟩ [false, true]).map (fun r => (r.2, r.1.solves.length))
    = some (some false, 1) := by decide +kernel

/-- the hypotheses of `C18_terminates` are satisfiable: default options, 301 outcomes suffice -/
example : (1 - (0 : Rat)) + 2 * 1 < ((301 : Nat) : Rat) * min 1 (1/100) := by norm_num

end RtcVerif.C18
