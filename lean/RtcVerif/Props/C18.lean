import RtcVerif.Model.C18Homotopy
import Mathlib.Tactic.NormNum
namespace RtcVerif.C18

/-- legacy overshoot (finding F3) -/
theorem C18_legacy_overshoot_witness :
    (optimizeWith stepLegacy ⟨1/2, 1, 1/100⟩ [true]).map (fun r => (r.2, r.1.acc, r.1.solves.length))
      = some (some true, some (1/2), 1) := by
  decide +kernel

end RtcVerif.C18
