import RtcVerif.Model.Interp
import RtcVerif.Model.Merge
import RtcVerif.Proofs.InterpLemmas
import RtcVerif.Proofs.NumOrder
import RtcVerif.Proofs.MergeLemmas
import RtcVerif.Proofs.InterpCode
import RtcVerif.Proofs.C19MergeCode
import RtcVerif.Proofs.C19InterpCols
import RtcVerif.Proofs.C19MergeAssoc
import Mathlib.Algebra.Order.Field.Basic
/-!
# C19 — interpolation and bound merging behave as documented for every input shape

Property theorems (all knot vectors, query points, modes, fills, shapes — unbounded).
Helper lemmas live in `Proofs/InterpLemmas.lean`, `Proofs/MergeLemmas.lean`.
-/
namespace RtcVerif.C19
open RtcVerif RtcVerif.Interp RtcVerif.Merge

/-- inside the knot range the core dispatches on the mode only -/
theorem interpCore_in (mode : Nat) (t0 f0 : Rat) (rest : Knots) (fl fr : Fill) (t : Rat)
    (h1 : t0 ≤ t) (h2 : t ≤ lastTime ((t0, f0) :: rest)) :
    interpCore mode ((t0, f0) :: rest) fl fr t =
      match mode with
      | 0 => linFrom ((t0, f0) :: rest) (fillOut fr) t
      | 1 => .val (XVal.fin (prevFrom rest f0 t))
      | 2 => .val (XVal.fin (nextFrom ((t0, f0) :: rest) (lastVal ((t0, f0) :: rest)) t))
      | _ => .raise := by
  match mode with
  | 0 | 1 | 2 | _ + 3 => simp only [interpCore, not_lt.2 h1, not_lt.2 h2, if_false]

/-- **Exact at the knots**, in every mode and whatever the fill values are. -/
theorem interp_at_knot (ks : Knots) (hs : Sorted ks) (fl fr : Fill) (mode : Nat) (hm : mode ≤ 2)
    (k : Rat × Rat) (hk : k ∈ ks) :
    interpCore mode ks fl fr k.1 = .val (XVal.fin k.2) := by
  obtain ⟨pre, post, rfl⟩ := List.append_of_mem hk
  obtain ⟨a, fa⟩ := k
  have hne : pre ++ (a, fa) :: post ≠ [] := by simp
  obtain ⟨⟨t0, f0⟩, rest, hks⟩ := List.exists_cons_of_ne_nil hne
  have h1 : t0 ≤ a := by
    have := Sorted.first_le (x := (t0, f0)) (rest := rest) (hks ▸ hs) (a, fa) (hks ▸ hk)
    exact this
  have h2 : a ≤ lastTime ((t0, f0) :: rest) := by
    have := Sorted.le_last (hks ▸ hs) (a, fa) (hks ▸ hk)
    exact this
  rw [hks, interpCore_in mode t0 f0 rest fl fr a h1 h2]
  have hpreLt : ∀ p ∈ pre, p.1 < a := Sorted.append_lt hs
  obtain rfl | rfl | rfl : mode = 0 ∨ mode = 1 ∨ mode = 2 := by omega
  · -- linear
    show linFrom ((t0, f0) :: rest) (fillOut fr) a = _
    rw [← hks]
    cases post with
    | nil => exact linFrom_last pre a fa _ hs
    | cons q post =>
      obtain ⟨b, fb⟩ := q
      have hab : a < b := (Sorted.append_right hs).1
      rw [linFrom_seg pre post a fa b fb _ a hs (le_refl a) hab]
      simp
  · -- previous value
    show Out.val (XVal.fin (prevFrom rest f0 a)) = _
    rw [← prevFrom_cons_le t0 f0 rest 0 a h1, ← hks]
    rw [prevFrom_seg pre post a fa 0 a hs (le_refl a)]
    intro p hp
    cases post with
    | nil => cases hp
    | cons q post =>
      have : p = q := by simpa using hp.symm
      subst this
      exact (Sorted.append_right hs).1
  · -- next value
    show Out.val (XVal.fin (nextFrom ((t0, f0) :: rest) _ a)) = _
    rw [← hks, nextFrom_seg pre post a fa _ a hpreLt (le_refl a)]

/-- **Between two consecutive knots**: the chord in linear mode, the previous value in
    forward mode, the next value in backward mode. -/
theorem interp_between (pre post : Knots) (a fa b fb : Rat) (fl fr : Fill) (t : Rat)
    (hs : Sorted (pre ++ (a, fa) :: (b, fb) :: post)) (hat : a < t) (htb : t < b) :
    interpCore 0 (pre ++ (a, fa) :: (b, fb) :: post) fl fr t
        = .val (XVal.fin (fa + (fb - fa) / (b - a) * (t - a)))
    ∧ interpCore 1 (pre ++ (a, fa) :: (b, fb) :: post) fl fr t = .val (XVal.fin fa)
    ∧ interpCore 2 (pre ++ (a, fa) :: (b, fb) :: post) fl fr t = .val (XVal.fin fb) := by
  have hne : pre ++ (a, fa) :: (b, fb) :: post ≠ [] := by simp
  obtain ⟨⟨t0, f0⟩, rest, hks⟩ := List.exists_cons_of_ne_nil hne
  have hmemA : (a, fa) ∈ pre ++ (a, fa) :: (b, fb) :: post := by simp
  have hmemB : (b, fb) ∈ pre ++ (a, fa) :: (b, fb) :: post := by simp
  have h1 : t0 ≤ t := by
    have := Sorted.first_le (x := (t0, f0)) (rest := rest) (hks ▸ hs) (a, fa) (hks ▸ hmemA)
    exact le_trans this (le_of_lt hat)
  have h2 : t ≤ lastTime ((t0, f0) :: rest) := by
    have := Sorted.le_last (hks ▸ hs) (b, fb) (hks ▸ hmemB)
    exact le_trans (le_of_lt htb) this
  have hpreLt : ∀ p ∈ pre, p.1 < a := Sorted.append_lt hs
  refine ⟨?_, ?_, ?_⟩
  · rw [hks, interpCore_in 0 t0 f0 rest fl fr t h1 h2]
    show linFrom ((t0, f0) :: rest) (fillOut fr) t = _
    rw [← hks, linFrom_seg pre post a fa b fb _ t hs (le_of_lt hat) htb]
  · rw [hks, interpCore_in 1 t0 f0 rest fl fr t h1 h2]
    show Out.val (XVal.fin (prevFrom rest f0 t)) = _
    rw [← prevFrom_cons_le t0 f0 rest 0 t h1, ← hks]
    rw [prevFrom_seg pre ((b, fb) :: post) a fa 0 t hs (le_of_lt hat)]
    intro p hp
    have : p = (b, fb) := by simpa using hp.symm
    subst this
    exact htb
  · rw [hks, interpCore_in 2 t0 f0 rest fl fr t h1 h2]
    show Out.val (XVal.fin (nextFrom ((t0, f0) :: rest) _ t)) = _
    rw [← hks]
    have hsplit : pre ++ (a, fa) :: (b, fb) :: post = (pre ++ [(a, fa)]) ++ (b, fb) :: post := by
      simp
    rw [hsplit, nextFrom_seg (pre ++ [(a, fa)]) post b fb _ t _ (le_of_lt htb)]
    intro p hp
    rcases List.mem_append.1 hp with hp | hp
    · exact lt_trans (hpreLt p hp) hat
    · have : p = (a, fa) := by simpa using hp
      subst this
      exact hat

/-- the linear interpolant stays within the hull of the two neighbouring values -/
theorem interp_within_hull (a fa b fb t : Rat) (hab : a < b) (hat : a ≤ t) (htb : t ≤ b) :
    min fa fb ≤ fa + (fb - fa) / (b - a) * (t - a)
    ∧ fa + (fb - fa) / (b - a) * (t - a) ≤ max fa fb := by
  have hba : 0 < b - a := sub_pos.2 hab
  have hw0 : 0 ≤ (t - a) / (b - a) := div_nonneg (sub_nonneg.2 hat) (le_of_lt hba)
  have hw1 : (t - a) / (b - a) ≤ 1 := (div_le_one hba).2 (by linarith)
  have hval : fa + (fb - fa) / (b - a) * (t - a) = fa + (fb - fa) * ((t - a) / (b - a)) := by
    field_simp
  rw [hval]
  rcases le_total fa fb with h | h
  · rw [min_eq_left h, max_eq_right h]
    constructor <;> nlinarith
  · rw [min_eq_right h, max_eq_left h]
    constructor <;> nlinarith

/-- **Left of the range** the left fill is used (or the call raises when it is `None`). -/
theorem interp_left_fill (mode : Nat) (hm : mode ≤ 2) (t0 f0 : Rat) (rest : Knots)
    (fl fr : Fill) (t : Rat) (h : t < t0) :
    interpCore mode ((t0, f0) :: rest) fl fr t = fillOut fl := by
  simp [interpCore, h, hm]

/-- **Right of the range** the right fill is used (or the call raises when it is `None`). -/
theorem interp_right_fill (mode : Nat) (hm : mode ≤ 2) (ks : Knots) (hs : Sorted ks)
    (hne : ks ≠ []) (fl fr : Fill) (t : Rat) (h : lastTime ks < t) :
    interpCore mode ks fl fr t = fillOut fr := by
  obtain ⟨⟨t0, f0⟩, rest, rfl⟩ := List.exists_cons_of_ne_nil hne
  have h0 : t0 ≤ lastTime ((t0, f0) :: rest) := Sorted.le_last hs (t0, f0) (by simp)
  have : ¬ t < t0 := not_lt.2 (le_of_lt (lt_of_le_of_lt h0 h))
  simp [interpCore, this, h, hm]

/-- the scalar early exit (`ts[0] == t`) returns what the general path returns -/
theorem interp_scalar_early_exit_agrees (mode : Nat) (hm : mode ≤ 2) (ks : Knots)
    (hs : Sorted ks) (fl fr : Fill) (t : Rat) (hne : ks ≠ []) :
    interpScalar mode ks fl fr t = interpCore mode ks fl fr t := by
  obtain ⟨⟨t0, f0⟩, rest, rfl⟩ := List.exists_cons_of_ne_nil hne
  by_cases h : t0 = t
  · subst h
    have := interp_at_knot ((t0, f0) :: rest) hs fl fr mode hm (t0, f0) (by simp)
    simp only [interpScalar, if_true]
    exact this.symm
  · simp [interpScalar, h]

/-- the array early exit (query equal to the knot times) returns what the general path returns -/
theorem interp_array_early_exit_agrees (mode : Nat) (hm : mode ≤ 2) (ks : Knots)
    (hs : Sorted ks) (hne : ks ≠ []) (fl fr : Fill) (ts : List Rat) :
    interpArray mode ks fl fr ts = sequence (ts.map (interpCore mode ks fl fr)) := by
  unfold interpArray
  rw [if_neg hne]
  split
  · rename_i h
    subst h
    have : (ks.map (·.1)).map (interpCore mode ks fl fr)
        = (ks.map (fun k => XVal.fin k.2)).map Out.val := by
      rw [List.map_map, List.map_map]
      apply List.map_congr_left
      intro k hk
      exact interp_at_knot ks hs fl fr mode hm k hk
    rw [this, sequence_map_val]
  · rfl

/-- multi-column series are interpolated column by column -/
theorem interp_columnwise (mode : Nat) (cols : List Knots) (fl fr : Fill) (ts : List Rat)
    (res : List (List XVal)) (h : interpColumns mode cols fl fr ts = some res) :
    res.length = cols.length ∧
    ∀ c (hc : c < cols.length), (res[c]?) = interpArray mode cols[c] fl fr ts := by
  unfold interpColumns at h
  induction cols generalizing res with
  | nil =>
    simp at h
    subst h
    simp
  | cons ks cols ih =>
    simp only [List.mapM_cons, Option.bind_eq_bind, Option.pure_def] at h
    cases h1 : interpArray mode ks fl fr ts with
    | none => simp [h1] at h
    | some r =>
      cases h2 : List.mapM (fun ks => interpArray mode ks fl fr ts) cols with
      | none => simp [h1, h2] at h
      | some rs =>
        simp [h1, h2] at h
        subst h
        obtain ⟨hl, hrs⟩ := ih rs h2
        refine ⟨by simp [hl], ?_⟩
        intro c hc
        cases c with
        | zero => simp [h1]
        | succ c =>
          simp only [List.length_cons, Nat.add_lt_add_iff_right] at hc
          simpa using hrs c hc

/-- inside the knot range `linFrom` does not look at its `right` argument -/
theorem linFrom_indep (a : Rat × Rat) (l : Knots) (r1 r2 : Out) (t : Rat)
    (h : t ≤ lastTime (a :: l)) : linFrom (a :: l) r1 t = linFrom (a :: l) r2 t := by
  induction l generalizing a with
  | nil =>
    obtain ⟨t0, f0⟩ := a
    have : ¬ t0 < t := not_lt.2 (by simpa [lastTime] using h)
    simp [linFrom, this]
  | cons b l ih =>
    obtain ⟨t0, f0⟩ := a
    obtain ⟨t1, f1⟩ := b
    by_cases hlt : t < t1
    · simp [linFrom, hlt]
    · rw [linFrom_step _ _ _ _ _ _ _ hlt, linFrom_step _ _ _ _ _ _ _ hlt]
      exact ih (t1, f1) (by rwa [lastTime_cons_cons] at h)

/-- **The numeric and the symbolic interpolator agree** everywhere on the knot range, for every
    mode and whatever fills the numeric one is given. -/
theorem interp_sym_agrees (mode : Nat) (ks : Knots) (hne : ks ≠ []) (fl fr : Fill) (t : Rat)
    (h1 : firstTime ks ≤ t) (h2 : t ≤ lastTime ks) :
    interpSym mode ks t = interpCore mode ks fl fr t := by
  obtain ⟨⟨t0, f0⟩, rest, rfl⟩ := List.exists_cons_of_ne_nil hne
  have h1' : t0 ≤ t := by simpa [firstTime] using h1
  unfold interpSym
  rw [interpCore_in mode t0 f0 rest _ _ t h1' h2, interpCore_in mode t0 f0 rest fl fr t h1' h2]
  match mode with
  | 0 => exact linFrom_indep _ _ _ _ _ h2
  | 1 => rfl
  | 2 => rfl
  | _ + 3 => rfl

/-- outside the range the symbolic interpolator holds the end values -/
theorem interp_sym_clamps (mode : Nat) (hm : mode ≤ 2) (ks : Knots) (hs : Sorted ks)
    (hne : ks ≠ []) (t : Rat) :
    (t < firstTime ks → interpSym mode ks t = .val (XVal.fin (firstVal ks))) ∧
    (lastTime ks < t → interpSym mode ks t = .val (XVal.fin (lastVal ks))) := by
  constructor
  · intro h
    obtain ⟨⟨t0, f0⟩, rest, rfl⟩ := List.exists_cons_of_ne_nil hne
    have h' : t < t0 := by simpa [firstTime] using h
    unfold interpSym
    rw [interp_left_fill mode hm t0 f0 rest _ _ t h']
    rfl
  · intro h
    unfold interpSym
    rw [interp_right_fill mode hm ks hs hne _ _ t h]
    rfl

/-! ## merge_bounds -/

/-- **Element- and time-wise** the merged lower bound is the larger of the two lower bounds and
    the merged upper bound the smaller of the two upper bounds, whatever mixture of scalar, vector
    and Timeseries the sides are (scalars and vectors broadcast). -/
theorem merge_elementwise (lo1 hi1 lo2 hi2 m M : Bnd)
    (h : mergeBounds lo1 hi1 lo2 hi2 = some (m, M)) (i j : Nat) :
    (∀ x y, (normalize lo1).at i j = some x → (normalize lo2).at i j = some y →
        m.at i j = some (max x y)) ∧
    (∀ x y, (normalize hi1).at i j = some x → (normalize hi2).at i j = some y →
        M.at i j = some (min x y)) := by
  unfold mergeBounds at h
  cases h1 : mergeSide EVal.max lo1 lo2 with
  | none => simp [h1] at h
  | some m' =>
    cases h2 : mergeSide EVal.min hi1 hi2 with
    | none => simp [h1, h2] at h
    | some M' =>
      simp [h1, h2] at h
      obtain ⟨rfl, rfl⟩ := h
      exact ⟨fun x y hx hy => mergeSide_at EVal.max lo1 lo2 m' h1 i j x y hx hy,
             fun x y hx hy => mergeSide_at EVal.min hi1 hi2 M' h2 i j x y hx hy⟩

/-- **Independent of the argument order** (including which inputs are rejected). -/
theorem merge_comm (lo1 hi1 lo2 hi2 : Bnd) :
    mergeBounds lo1 hi1 lo2 hi2 = mergeBounds lo2 hi2 lo1 hi1 := by
  unfold mergeBounds
  rw [mergeSide_comm EVal.max (fun a b => by rw [EVal.max_eq, EVal.max_eq, max_comm]) lo1 lo2,
      mergeSide_comm EVal.min (fun a b => by rw [EVal.min_eq, EVal.min_eq, min_comm]) hi1 hi2]

/-- merging a pair with itself changes nothing (up to the scalar normalisation) -/
theorem merge_idem (lo hi : Bnd) :
    mergeBounds lo hi lo hi = some (normalize lo, normalize hi) := by
  unfold mergeBounds
  rw [mergeSide_idem EVal.max (fun a => by rw [EVal.max_eq, max_self]) lo,
      mergeSide_idem EVal.min (fun a => by rw [EVal.min_eq, min_self]) hi]
  rfl

/-- **Associativity, element- and time-wise, whenever both groupings are accepted**: merging three bound
    pairs as `(1 ∘ 2) ∘ 3` and as `1 ∘ (2 ∘ 3)` gives the same lower and upper bound at every (time, component)
    where the three inputs are defined.

    (The full statement — equal representations, and the same inputs rejected by both groupings — is
    `merge_assoc` below; this element-wise form needs no side condition at all.) -/
theorem merge_assoc_elementwise (lo1 hi1 lo2 hi2 lo3 hi3 m12 M12 m23 M23 mL ML mR MR : Bnd)
    (h12 : mergeBounds lo1 hi1 lo2 hi2 = some (m12, M12)) (hL : mergeBounds m12 M12 lo3 hi3 = some (mL, ML))
    (h23 : mergeBounds lo2 hi2 lo3 hi3 = some (m23, M23)) (hR : mergeBounds lo1 hi1 m23 M23 = some (mR, MR))
    (i j : Nat) :
    (∀ x y z, (normalize lo1).at i j = some x → (normalize lo2).at i j = some y →
        (normalize lo3).at i j = some z →
        mL.at i j = some (max (max x y) z) ∧ mR.at i j = mL.at i j) ∧
    (∀ x y z, (normalize hi1).at i j = some x → (normalize hi2).at i j = some y →
        (normalize hi3).at i j = some z →
        ML.at i j = some (min (min x y) z) ∧ MR.at i j = ML.at i j) := by
  have e12 := merge_elementwise lo1 hi1 lo2 hi2 m12 M12 h12 i j
  have eL := merge_elementwise m12 M12 lo3 hi3 mL ML hL i j
  have e23 := merge_elementwise lo2 hi2 lo3 hi3 m23 M23 h23 i j
  have eR := merge_elementwise lo1 hi1 m23 M23 mR MR hR i j
  constructor
  · intro x y z hx hy hz
    have a1 := normalize_at _ _ _ _ (e12.1 x y hx hy)
    have a2 := eL.1 _ z a1 hz
    have b1 := normalize_at _ _ _ _ (e23.1 y z hy hz)
    have b2 := eR.1 x _ hx b1
    exact ⟨a2, by rw [a2, b2, max_assoc]⟩
  · intro x y z hx hy hz
    have a1 := normalize_at _ _ _ _ (e12.2 x y hx hy)
    have a2 := eL.2 _ z a1 hz
    have b1 := normalize_at _ _ _ _ (e23.2 y z hy hz)
    have b2 := eR.2 x _ hx b1
    exact ⟨a2, by rw [a2, b2, min_assoc]⟩

/-- **Associativity, with the rejection cases**: merging three bound pairs as `(1 ∘ 2) ∘ 3` and as
    `1 ∘ (2 ∘ 3)` gives the same pair of bounds (same representation: kind, time stamps, every value), and a
    triple rejected by one grouping is rejected by the other — for every mixture of scalars, vectors, 1-D and
    2-D Timeseries in which every vector Timeseries has at least one row (`NonDeg`; without it the model has
    the counter-example `merge_assoc_needs_rows`). -/
theorem merge_assoc (lo1 hi1 lo2 hi2 lo3 hi3 : Bnd)
    (n1 : NonDeg lo1) (n2 : NonDeg lo2) (n3 : NonDeg lo3) (N1 : NonDeg hi1) (N2 : NonDeg hi2) (N3 : NonDeg hi3) :
    (mergeBounds lo1 hi1 lo2 hi2).bind (fun p => mergeBounds p.1 p.2 lo3 hi3)
      = (mergeBounds lo2 hi2 lo3 hi3).bind (fun p => mergeBounds lo1 hi1 p.1 p.2) := by
  have cmax : ∀ a b, EVal.max a b = EVal.max b a := fun a b => by
    rw [EVal.max_eq, EVal.max_eq, max_comm]
  have amax : ∀ a b c, EVal.max (EVal.max a b) c = EVal.max a (EVal.max b c) := fun a b c => by
    simp only [EVal.max_eq, max_assoc]
  have cmin : ∀ a b, EVal.min a b = EVal.min b a := fun a b => by
    rw [EVal.min_eq, EVal.min_eq, min_comm]
  have amin : ∀ a b c, EVal.min (EVal.min a b) c = EVal.min a (EVal.min b c) := fun a b c => by
    simp only [EVal.min_eq, min_assoc]
  have hL := mergeSide_assoc EVal.max cmax amax lo1 lo2 lo3 n1 n2 n3
  have hH := mergeSide_assoc EVal.min cmin amin hi1 hi2 hi3 N1 N2 N3
  unfold mergeBounds
  cases e1 : mergeSide EVal.max lo1 lo2 <;> cases e2 : mergeSide EVal.min hi1 hi2 <;>
    cases e3 : mergeSide EVal.max lo2 lo3 <;> cases e4 : mergeSide EVal.min hi2 hi3 <;>
    simp only [e1, e2, e3, e4, Option.bind_some, Option.bind_none, Option.bind_eq_bind, Option.pure_def]
      at hL hH ⊢ <;>
    first
      | rfl
      | (simp [← hL, ← hH]; done)
      | (simp [hL, hH]; done)
      | (simp [← hL, hH]; done)
      | (simp [hL, ← hH]; done)
      | (simp [← hL]; done)
      | (simp [← hH]; done)
      | (simp [hL]; done)
      | (simp [hH]; done)

/-- why the rejection half of associativity needs "every vector Timeseries has at least one row" on the
    model: with an empty 2-D series the grouping decides whether two vectors of different sizes meet -/
theorem merge_assoc_needs_rows :
    (mergeSide EVal.max (.vec [.fin 1, .fin 2]) (.vec [.fin 1, .fin 2, .fin 3])).bind
        (fun ab => mergeSide EVal.max ab (.ts2 [] [])) = none ∧
    (mergeSide EVal.max (.vec [.fin 1, .fin 2, .fin 3]) (.ts2 [] [])).bind
        (fun bc => mergeSide EVal.max (.vec [.fin 1, .fin 2]) bc) = some (.ts2 [] []) := by
  decide +kernel

/-- **Incompatible shapes or time stamps are rejected**, in both argument orders. -/
theorem merge_rejects_incompatible (f : EVal → EVal → EVal) :
    (∀ xs ys : List EVal, 2 ≤ xs.length → 2 ≤ ys.length → xs.length ≠ ys.length →
        mergeSide f (.vec xs) (.vec ys) = none ∧ mergeSide f (.vec ys) (.vec xs) = none) ∧
    (∀ (t u : List Rat) (xs ys : List EVal), t ≠ u →
        mergeSide f (.ts1 t xs) (.ts1 u ys) = none ∧ mergeSide f (.ts1 u ys) (.ts1 t xs) = none) ∧
    (∀ (t u : List Rat) (xs ys : List (List EVal)), t ≠ u →
        mergeSide f (.ts2 t xs) (.ts2 u ys) = none ∧ mergeSide f (.ts2 u ys) (.ts2 t xs) = none) ∧
    (∀ (t : List Rat) (xs : List EVal) (vs : List EVal), 2 ≤ vs.length →
        mergeSide f (.vec vs) (.ts1 t xs) = none ∧ mergeSide f (.ts1 t xs) (.vec vs) = none) := by
  refine ⟨?_, ?_, ?_, ?_⟩
  · intro xs ys hx hy hne
    have nx : normalize (.vec xs) = .vec xs := normalize_vec_two xs hx
    have ny : normalize (.vec ys) = .vec ys := normalize_vec_two ys hy
    constructor <;> (rw [mergeSide_eq, nx, ny]; simp [mergeN, upcast, combine, zipSame, hne, Ne.symm hne])
  · intro t u xs ys hne
    constructor <;> simp [mergeSide, normalize, upcast, combine, hne, Ne.symm hne]
  · intro t u xs ys hne
    constructor <;> simp [mergeSide, normalize, upcast, combine, hne, Ne.symm hne]
  · intro t xs vs hv
    have nv : normalize (.vec vs) = .vec vs := normalize_vec_two vs hv
    have nt : normalize (.ts1 t xs) = .ts1 t xs := rfl
    constructor <;> (rw [mergeSide_eq, nv, nt]; simp [mergeN, upcast])

/-! ## non-vacuity: concrete instances meeting the hypotheses -/

example : Sorted [(0, 10), (1, 20), (3, 40)] ∧ ((1 : Rat), (20 : Rat)) ∈ [((0:Rat), (10:Rat)), (1, 20), (3, 40)] := by
  decide

example : interpCore 0 [(0, 10), (1, 20), (3, 40)] (some .nan) (some .nan) 2 = .val (XVal.fin 30) := by
  decide +kernel

example : mergeBounds (.sc (.fin 1)) (.vec [.fin 5, .pinf]) (.vec [.fin 0, .fin 2]) (.sc (.fin 4))
    = some (.vec [.fin 1, .fin 2], .vec [.fin 4, .fin 4]) := by
  decide +kernel

example : mergeBounds (.sc (.fin 1)) (.sc .pinf) (.vec [.fin 0, .fin 2]) (.sc (.fin 9))
      = some (.vec [.fin 1, .fin 2], .sc (.fin 9)) ∧
    mergeBounds (.vec [.fin 1, .fin 2]) (.sc (.fin 9)) (.ts2 [0] [[.fin 3, .fin 0]]) (.ts1 [0] [.fin 4])
      = some (.ts2 [0] [[.fin 3, .fin 2]], .ts1 [0] [.fin 4]) ∧
    mergeBounds (.vec [.fin 0, .fin 2]) (.sc (.fin 9)) (.ts2 [0] [[.fin 3, .fin 0]]) (.ts1 [0] [.fin 4])
      = some (.ts2 [0] [[.fin 3, .fin 2]], .ts1 [0] [.fin 4]) ∧
    mergeBounds (.sc (.fin 1)) (.sc .pinf) (.ts2 [0] [[.fin 3, .fin 2]]) (.ts1 [0] [.fin 4])
      = some (.ts2 [0] [[.fin 3, .fin 2]], .ts1 [0] [.fin 4]) := by
  decide +kernel

/-- the hypotheses of `merge_assoc` hold for the instance above (and fail only for a 2-D series without rows) -/
example : NonDeg (.sc (.fin 1)) ∧ NonDeg (.vec [.fin 0, .fin 2]) ∧ NonDeg (.ts2 [0] [[.fin 3, .fin 0]]) ∧
    NonDeg (.ts1 [0] [.fin 4]) ∧ ¬ NonDeg (.ts2 [] []) := by
  simp [NonDeg]

/-! ### The code as written (translated from the source on every run) is the model

`Model/InterpCode.lean` holds `coreRef` / `scalarRef` / `arrayRef` / `symRef`: `__interpolate`,
`interpolate` and `casadi_helpers.interpolate` as written, over NumPy-level primitives (prefix counts,
index reads, `np.interp`, `ca.interp1d`).  harness/translate_c19.py regenerates the same functions from
/repo on every run and proves them equal to these references; the theorems below connect the references
to the model all the theorems above are about.  `None` never reaches a result. -/

open RtcVerif.InterpCode in
/-- `__interpolate` as written (scalar query: `arr = false`; one element of an array query:
    `arr = true`) computes the model's `interpCore`. -/
theorem code_core_is_model (arr : Bool) (mode : Nat) (ks : Knots) (fl fr : Fill) (t : Rat)
    (hne : ks ≠ []) (hfl : firstTime ks ≤ lastTime ks) :
    coreRef arr mode ks fl fr t = embed (interpCore mode ks fl fr t) := by
  obtain ⟨⟨t0, f0⟩, rest, rfl⟩ := List.exists_cons_of_ne_nil hne
  have hft : firstTime ((t0, f0) :: rest) = t0 := rfl
  rw [hft] at hfl
  unfold coreRef interpCore
  rw [hft]
  by_cases h1 : t < t0
  · have h2 : ¬ lastTime ((t0, f0) :: rest) < t := by
      intro h; exact absurd (lt_of_lt_of_le h1 hfl) (not_lt.2 (le_of_lt h))
    cases fl with
    | none =>
      match mode with
      | 0 | 1 | 2 => simp [h1, fillOut, embed]
      | _ + 3 => simp [h1, embed]
    | some v =>
      match mode with
      | 0 => simp [h1, h2, npInterp, hft, fillOut, embed]
      | 1 => cases arr <;> simp [h1, h2, fillsRef, hft, fillOut, fillC, embed]
      | 2 => cases arr <;> simp [h1, h2, fillsRef, hft, fillOut, fillC, embed]
      | _ + 3 => simp [h1, h2, embed]
  · by_cases h2 : lastTime ((t0, f0) :: rest) < t
    · cases fr with
      | none =>
        match mode with
        | 0 | 1 | 2 => simp [h1, h2, fillOut, embed]
        | _ + 3 => simp [h1, h2, embed]
      | some v =>
        match mode with
        | 0 => simp [h1, h2, npInterp, hft, fillOut, embed]
        | 1 => cases arr <;> simp [h1, h2, fillsRef, hft, fillOut, fillC, embed]
        | 2 => cases arr <;> simp [h1, h2, fillsRef, hft, fillOut, fillC, embed]
        | _ + 3 => simp [h1, h2, embed]
    · have hle : t ≤ lastTime ((t0, f0) :: rest) := not_lt.1 h2
      match mode with
      | 0 =>
        simp only [h1, h2, and_false, if_false, if_true, npInterp, hft]
        rw [linFrom_indep (t0, f0) rest (fillOut fr) .raise t hle]
      | 1 =>
        cases arr <;>
          simp [h1, h2, fillsRef, hft, embed, prev_code t0 f0 rest t (not_lt.1 h1)]
      | 2 =>
        have hn := next_code (t0, f0) rest (lastVal ((t0, f0) :: rest)) t
        have e : ((((t0, f0) :: rest : Knots).length : Nat) : Int) - 1 = (rest.length : Int) := by
          simp only [List.length_cons]; omega
        rw [e] at hn
        cases arr <;> simp [h1, h2, fillsRef, hft, embed, hn]
      | _ + 3 => simp [h1, h2, embed]

open RtcVerif.InterpCode in
/-- `interpolate` as written, scalar query. -/
theorem code_scalar_is_model (mode : Nat) (ks : Knots) (fl fr : Fill) (t : Rat)
    (hne : ks ≠ []) (hfl : firstTime ks ≤ lastTime ks) :
    scalarRef mode ks fl fr t = embed (interpScalar mode ks fl fr t) := by
  unfold scalarRef
  rw [code_core_is_model false mode ks fl fr t hne hfl]
  obtain ⟨⟨t0, f0⟩, rest, rfl⟩ := List.exists_cons_of_ne_nil hne
  by_cases h : t0 = t <;> simp [interpScalar, firstTime, firstVal, h, embed]

open RtcVerif.InterpCode in
/-- `interpolate` as written, array query. -/
theorem code_array_is_model (mode : Nat) (ks : Knots) (fl fr : Fill) (qs : List Rat)
    (hne : ks ≠ []) (hfl : firstTime ks ≤ lastTime ks) :
    arrayRef mode ks fl fr qs = interpArray mode ks fl fr qs := by
  unfold arrayRef interpArray
  have hc : qs.map (coreRef true mode ks fl fr) = (qs.map (interpCore mode ks fl fr)).map embed := by
    rw [List.map_map]
    exact List.map_congr_left (fun t _ => code_core_is_model true mode ks fl fr t hne hfl)
  rw [hc, sequenceC_map_embed]
  by_cases h : qs = ks.map (·.1)
  · have hl : qs.length = ks.length := by rw [h, List.length_map]
    simp [hne, h]
  · simp [hne, h]

open RtcVerif.InterpCode in
/-- sorted knots satisfy the side condition of the three theorems above -/
theorem sorted_first_le_last (ks : Knots) (hs : Sorted ks) (hne : ks ≠ []) :
    firstTime ks ≤ lastTime ks := by
  obtain ⟨⟨t0, f0⟩, rest, rfl⟩ := List.exists_cons_of_ne_nil hne
  exact hs.le_last (t0, f0) (List.mem_cons_self ..)

open RtcVerif.InterpCode in
/-- `casadi_helpers.interpolate` as written (mode → "linear" / "floor" / "ceil") is the model's
    symbolic interpolant for the three documented modes. -/
theorem code_sym_is_model (mode : Nat) (hm : mode ≤ 2) (ks : Knots) (t : Rat) :
    symRef mode ks t = interpSym mode ks t := by
  match mode, hm with
  | 0, _ => rfl
  | 1, _ => rfl
  | 2, _ => rfl

/-! ### The 2-D values branch of `interpolate` as written is the column-wise model -/

/-- 2-D values with a scalar query (F20): one value per column, each the scalar interpolation of that
    column; the call raises iff one column does -/
theorem interp_columnwise_scalar (mode : Nat) (cols : List Knots) (fl fr : Fill) (t : Rat)
    (res : List XVal) (h : interpColumnsScalar mode cols fl fr t = some res) :
    res.length = cols.length ∧
    ∀ c (hc : c < cols.length), (res[c]?) = (interpScalar mode cols[c] fl fr t).toOption :=
  InterpCode.mapM_get _ cols res h

open RtcVerif.InterpCode in
/-- the 2-D branch of `interpolate` as written, array query (early exit `fs.copy()`, per-column recursion
    with the fills and the mode forwarded, `np.stack`), computes the model's `interpColumns` -/
theorem code_cols_array_is_model (mode : Nat) (ts : List Rat) (cols : List Knots) (fl fr : Fill)
    (qs : List Rat) (h : ColsOK ts cols) :
    colsArrayRef mode ts cols fl fr qs = interpColumns mode cols fl fr qs := by
  obtain ⟨hne, hc⟩ := h
  unfold colsArrayRef interpColumns
  by_cases hq : qs = ts
  · subst hq
    simp only [and_self, if_true]
    rw [mapM_congr_mem (fun ks => interpArray mode ks fl fr qs)
      (fun ks => some (ks.map fun k => XVal.fin k.2)) cols ?_, mapM_some_map]
    intro ks hks
    obtain ⟨h1, _, h3⟩ := hc ks hks
    simp [interpArray, h1, h3]
  · have hm : (cols.map fun ks => arrayRef mode ks fl fr qs) ≠ [] := by
      simpa using hne
    simp only [hq, and_false, if_false, stackA, hm]
    rw [mapM_id_map]
    apply mapM_congr_mem
    intro ks hks
    obtain ⟨h1, h2, _⟩ := hc ks hks
    exact code_array_is_model mode ks fl fr qs h1 h2

open RtcVerif.InterpCode in
/-- the 2-D branch of `interpolate` as written, scalar query (the F20 repair) -/
theorem code_cols_scalar_is_model (mode : Nat) (ts : List Rat) (cols : List Knots) (fl fr : Fill)
    (t : Rat) (h : ColsOK ts cols) :
    colsScalarRef mode cols fl fr t = interpColumnsScalar mode cols fl fr t := by
  obtain ⟨hne, hc⟩ := h
  unfold colsScalarRef interpColumnsScalar
  have hm : (cols.map fun ks => scalarRef mode ks fl fr t) ≠ [] := by
    simpa using hne
  have e : (cols.map fun ks => scalarRef mode ks fl fr t)
      = cols.map fun ks => embed (interpScalar mode ks fl fr t) := by
    apply List.map_congr_left
    intro ks hks
    obtain ⟨h1, h2, _⟩ := hc ks hks
    exact code_scalar_is_model mode ks fl fr t h1 h2
  simp only [stackC, hm, if_false]
  rw [e, sequenceC_embed_map]

example : InterpCode.ColsOK [0, 1, 3] [[(0, 10), (1, 20), (3, 40)], [(0, 1), (1, 2), (3, 4)]] := by
  refine ⟨by simp, ?_⟩
  intro ks hks
  simp at hks
  rcases hks with rfl | rfl <;> refine ⟨by simp, by decide +kernel, by decide +kernel⟩

example : interpColumnsScalar 0 [[(0, 10), (1, 20), (3, 40)], [(0, 1), (1, 2), (3, 4)]] (some .nan) (some .nan) 2
    = some [XVal.fin 30, XVal.fin 3] := by
  decide +kernel

/-! ### `merge_bounds` as written (translated from the source on every run) is the model

`Model/C19MergeCode.lean` holds `mergeBoundsRef`: the statement frame of `merge_bounds` (debug assertions,
normalisation loop, upcasting loop over the index pairs, type assertions, the two merges) over the
dynamically typed universe `PyV` (Python int / float, integer- or float-dtype 1-D arrays, Timeseries with
1-D / 2-D values, and the values the assertions reject) and NumPy-level primitives (`np.full_like` with and
without `dtype`, `np.broadcast_to`, `np.maximum` / `np.minimum`, `Timeseries(...)` as written in
`Timeseries.__init__`).  harness/translate_c19.py regenerates the same functions from /repo on every run and
proves them equal to these references (`Gen/MergeCode.lean`); the theorems below connect the reference to
`mergeBounds`, the function `merge_elementwise`, `merge_comm`, `merge_idem`, `merge_assoc`,
`merge_rejects_incompatible` are about. -/

open RtcVerif.MergeCode in
/-- **`merge_bounds` as written computes the model's `mergeBounds`** on everything its assertions accept
    (any mixture of int / float scalars, integer- or float-dtype vectors, 1-D / 2-D Timeseries, both argument
    orders), including which inputs raise; the int / float distinction does not influence the values. -/
theorem code_merge_is_model (a A b B : PyV) (ha : Valid a) (hA : Valid A) (hb : Valid b) (hB : Valid B)
    (wa : WF a) (wA : WF A) (wb : WF b) (wB : WF B) :
    (mergeBoundsRef a A b B).map (fun p => (den p.1, den p.2))
      = mergeBounds (den a) (den A) (den b) (den B) := by
  rw [mergeBoundsRef_valid a A b B ha hA hb hB]
  have h1 := side_is_model true a b ha hb wa wb
  have h2 := side_is_model false A B hA hB wA wB
  have e1 : fOf true = EVal.max := rfl
  have e2 : fOf false = EVal.min := rfl
  rw [e1] at h1
  rw [e2] at h2
  unfold mergeBounds
  rw [← h1, ← h2]
  cases sideN true (normRef a) (normRef b) <;> cases sideN false (normRef A) (normRef B) <;> rfl

open RtcVerif.MergeCode in
/-- whatever the debug assertions do not accept (a 2-D or non-numeric array, `None`, a list, ...) makes
    `merge_bounds` raise -/
theorem code_merge_rejects_invalid (a A b B : PyV) (h : ¬ (Valid a ∧ Valid A ∧ Valid b ∧ Valid B)) :
    mergeBoundsRef a A b B = none :=
  MergeCode.mergeBoundsRef_invalid a A b B h

/-- F52 and F19 on the code-level reference: a float scalar against an integer-dtype vector is not
    truncated; int and float scalars mix (non-vacuity of `code_merge_is_model`: valid, well-formed inputs) -/
example : MergeCode.mergeBoundsRef (.num false (.fin (5/2))) (.num true (.fin 3))
      (.arr true [.fin 1, .fin 4, .fin 1]) (.num true (.fin 4))
    = some (.arr false [.fin (5/2), .fin 4, .fin (5/2)], .num false (.fin 3)) := by
  decide +kernel

example : MergeCode.mergeBoundsRef (.num true (.fin 0)) (.num true (.fin 1)) (.num false (.fin (1/2))) (.num false (.fin 2))
    = some (.num false (.fin (1/2)), .num false (.fin 1)) := by
  decide +kernel

example : MergeCode.mergeBoundsRef (.arr false [.fin 1, .fin 2]) (.num false .pinf)
      (.ts2 [0, 1] [[.fin 0, .fin 3], [.fin 2, .fin 2]]) (.ts1 [0, 1] [.fin 5, .fin 6])
    = some (.ts2 [0, 1] [[.fin 1, .fin 3], [.fin 2, .fin 2]], .ts1 [0, 1] [.fin 5, .fin 6]) := by
  decide +kernel

example : MergeCode.WF (.ts2 [0, 1] [[.fin 0, .fin 3], [.fin 2, .fin 2]]) ∧ MergeCode.WF (.ts1 [0, 1] [.fin 5, .fin 6]) := by
  refine ⟨⟨by decide, ?_⟩, ?_⟩
  · intro r hr; simp at hr; rcases hr with rfl | rfl <;> rfl
  · intro h; simp at h

end RtcVerif.C19
