import RtcVerif.Model.C20BSpline
namespace RtcVerif.C20

theorem cache_reuse_iff_newer (F : Files) :
    validCache F = true ↔
      ∃ m, F.npz = some m ∧ F.csvM < m ∧ (∀ i, F.ini = some i → i < m) ∧ F.loadable = true := by
  unfold validCache
  cases hn : F.npz with
  | none => simp
  | some m =>
    cases hi : F.ini with
    | none => simp
    | some i => simp [and_assoc]

end RtcVerif.C20
