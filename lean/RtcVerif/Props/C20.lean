import RtcVerif.Model.C20BSpline
import RtcVerif.Proofs.C20Lemmas
import RtcVerif.Proofs.C20RevCache
import RtcVerif.Proofs.C20Fit
import Mathlib.Algebra.Order.Field.Basic
import Mathlib.Tactic.Linarith
import Mathlib.Tactic.Ring
import Mathlib.Tactic.Positivity
/-!
# C20 — lookup tables evaluate, fit and invert their splines faithfully

Property theorems (all knot vectors, orders, weights, evaluation points, target lists, edit /
reload histories — unbounded).  Helper lemmas: `Proofs/C20Lemmas.lean`, `Proofs/C20RevCache.lean`.

Conventions: `t : Nat → Rat` is the knot vector as an index function (`knotFn l` for a Python list
`l`), `tl` is `t[-1]`; the hypotheses `Mono t` and `∀ j, t j ≤ tl` say that the knots never
decrease and end at `tl` (`knotFn_mono`, `knotFn_le_last`: true for every sorted list).
-/
namespace RtcVerif.C20

/-! ## the knot function of a sorted list satisfies the hypotheses -/

theorem knotFn_mono {l : List Rat} (hs : l.Pairwise (· ≤ ·)) : Mono (knotFn l) := by
  intro i j hij
  by_cases hne : l = []
  · subst hne; simp [knotFn]
  have hpos : 0 < l.length := List.length_pos_iff.2 hne
  have key : ∀ a b, a ≤ b → b < l.length → knotFn l a ≤ knotFn l b := by
    intro a b hab hb
    rw [knotFn_lt (by omega), knotFn_lt hb]
    rcases Nat.lt_or_eq_of_le hab with h | h
    · exact (List.pairwise_iff_getElem.1 hs) a b (by omega) hb h
    · subst h; exact le_refl _
  by_cases hj : j < l.length
  · exact key i j hij hj
  · rw [knotFn_ge (not_lt.1 hj) hne]
    by_cases hi : i < l.length
    · exact key i _ (by omega) (by omega)
    · rw [knotFn_ge (not_lt.1 hi) hne]

theorem knotFn_le_last {l : List Rat} (hs : l.Pairwise (· ≤ ·)) (j : Nat) :
    knotFn l j ≤ knotFn l (l.length - 1) := by
  by_cases hne : l = []
  · subst hne; simp [knotFn]
  by_cases hj : j < l.length
  · exact knotFn_mono hs j _ (by omega)
  · rw [knotFn_ge (not_lt.1 hj) hne]

/-! ## evaluation -/

/-- **Local support.**  `B_{i,k}(x) = 0` outside `[t_i, t_{i+k+1})` (the right end point belongs
    to the support only at `t[-1]`, for a non-empty span ending there). -/
theorem basis_local_support (t : Nat → Rat) (tl x : Rat) (hm : Mono t) (hl : ∀ j, t j ≤ tl)
    (k i : Nat) (h : x < t i ∨ t (i + k + 1) < x ∨ (x = t (i + k + 1) ∧ x ≠ tl)) :
    basis t tl x k i = 0 := by
  apply basis_eq_zero_of_not_inSupport hm hl
  rintro ⟨h1, h2⟩
  rcases h with h | h | ⟨h, h'⟩
  · exact absurd h1 (not_le.2 h)
  · rcases h2 with h2 | ⟨h2, h3, _⟩
    · exact absurd h (not_lt.2 (le_of_lt h2))
    · rw [h2, h3] at h; exact lt_irrefl _ h
  · rcases h2 with h2 | ⟨h2, _, _⟩
    · rw [h] at h2; exact lt_irrefl _ h2
    · exact h' h2

/-- an empty knot span (`t_i = t_{i+k+1}`, repeated knots) carries no basis function -/
theorem basis_repeated_knots_zero (t : Nat → Rat) (tl x : Rat) (hm : Mono t) (hl : ∀ j, t j ≤ tl)
    (k i : Nat) (h : t i = t (i + k + 1)) : basis t tl x k i = 0 :=
  basis_eq_zero_of_empty_span hm hl k i (by rw [h]; exact lt_irrefl _)

/-- **The outer window of `BSpline1D.__call__` is redundant**: the code's sum is the reference
    spline `Σ_i w_i B_{i,k}(x)`, at every `x`. -/
theorem spline1d_eq_reference (t : Nat → Rat) (n : Nat) (w : Nat → Rat) (k : Nat) (x : Rat)
    (hm : Mono t) (hl : ∀ j, t j ≤ t (n - 1)) :
    spline1d t n w k x = splineRef t n w k x := by
  unfold spline1d splineRef
  apply sumN_congr
  intro i _
  unfold term1d
  split
  · rfl
  · rename_i hw
    rw [basis_eq_zero_of_not_inSupport hm hl k i]
    · simp
    · rintro ⟨h1, h2 | ⟨h2, h3, _⟩⟩
      · exact hw ⟨h1, le_of_lt h2⟩
      · exact hw ⟨h1, by rw [h2, h3]⟩

/-- the same for the tensor form of `BSpline2D.__call__` -/
theorem spline2d_eq_reference (tx : Nat → Rat) (nx : Nat) (ty : Nat → Rat) (ny : Nat)
    (w : Nat → Rat) (kx ky : Nat) (x y : Rat)
    (hmx : Mono tx) (hlx : ∀ j, tx j ≤ tx (nx - 1)) (hmy : Mono ty) (hly : ∀ j, ty j ≤ ty (ny - 1)) :
    spline2d tx nx ty ny w kx ky x y = spline2dRef tx nx ty ny w kx ky x y := by
  unfold spline2d spline2dRef
  apply sumN_congr
  intro i _
  apply sumN_congr
  intro j _
  rw [wbasis_eq_basis tx _ x hmx hlx, wbasis_eq_basis ty _ y hmy hly]

/-- **Non-negativity** of every basis function, at every point. -/
theorem basis_nonneg (t : Nat → Rat) (tl x : Rat) (hm : Mono t) (hl : ∀ j, t j ≤ tl)
    (k i : Nat) : 0 ≤ basis t tl x k i :=
  basis_nonneg' hm hl k i

/-- **Partition of unity** (full statement).  For a knot vector of length `n` and order `k` the
    `n - k - 1` basis functions the code sums add up to one on `[t_k, t_{n-k-1})`, and also at the
    right end point `x = t[-1]` when the knot vector is clamped there (`t_{n-k-1} = t[-1]`, the
    closed last interval of the repaired recursion). -/
theorem basis_partition_of_unity (t : Nat → Rat) (n k : Nat) (x : Rat) (hm : Mono t)
    (hl : ∀ j, t j ≤ t (n - 1))
    (hx : t k ≤ x ∧ (x < t (n - k - 1) ∨ (x = t (n - 1) ∧ t (n - k - 1) = t (n - 1) ∧ t k < t (n - 1)))) :
    sumN (n - k - 1) (fun i => basis t (t (n - 1)) x k i) = 1 := by
  have h := sum_basis_eq_one hm hl k 0 (n - k - 1)
    (by unfold InDomain; simpa only [Nat.zero_add] using hx)
  simpa only [Nat.zero_add] using h

/-- partition of unity for any block of consecutive basis functions -/
theorem basis_partition_of_unity_range (t : Nat → Rat) (tl x : Rat) (hm : Mono t)
    (hl : ∀ j, t j ≤ tl) (k a m : Nat) (hx : InDomain t tl x k a (a + m)) :
    sumN m (fun i => basis t tl x k (a + i)) = 1 :=
  sum_basis_eq_one hm hl k a m hx

/-- **Coefficient hull.**  On its domain the spline the code evaluates lies between the smallest
    and the largest coefficient. -/
theorem spline_in_coefficient_hull (t : Nat → Rat) (n : Nat) (w : Nat → Rat) (k : Nat) (x lo hi : Rat)
    (hm : Mono t) (hl : ∀ j, t j ≤ t (n - 1))
    (hx : t k ≤ x ∧ (x < t (n - k - 1) ∨ (x = t (n - 1) ∧ t (n - k - 1) = t (n - 1) ∧ t k < t (n - 1))))
    (hw : ∀ i, i < n - k - 1 → lo ≤ w i ∧ w i ≤ hi) :
    lo ≤ spline1d t n w k x ∧ spline1d t n w k x ≤ hi := by
  rw [spline1d_eq_reference t n w k x hm hl]
  unfold splineRef
  have hone := basis_partition_of_unity t n k x hm hl hx
  have hnn : ∀ i, 0 ≤ basis t (t (n - 1)) x k i := fun i => basis_nonneg' hm hl k i
  constructor
  · have h1 : sumN (n - k - 1) (fun i => lo * basis t (t (n - 1)) x k i)
        ≤ sumN (n - k - 1) (fun i => w i * basis t (t (n - 1)) x k i) :=
      sumN_le (fun i hi => mul_le_mul_of_nonneg_right (hw i hi).1 (hnn i))
    rw [sumN_mul_left, hone, mul_one] at h1
    exact h1
  · have h1 : sumN (n - k - 1) (fun i => w i * basis t (t (n - 1)) x k i)
        ≤ sumN (n - k - 1) (fun i => hi * basis t (t (n - 1)) x k i) :=
      sumN_le (fun i hi' => mul_le_mul_of_nonneg_right (hw i hi').2 (hnn i))
    rw [sumN_mul_left, hone, mul_one] at h1
    exact h1

/-- a table with constant coefficients is that constant on its domain -/
theorem spline_reproduces_constants (t : Nat → Rat) (n k : Nat) (x c : Rat)
    (hm : Mono t) (hl : ∀ j, t j ≤ t (n - 1))
    (hx : t k ≤ x ∧ (x < t (n - k - 1) ∨ (x = t (n - 1) ∧ t (n - k - 1) = t (n - 1) ∧ t k < t (n - 1)))) :
    spline1d t n (fun _ => c) k x = c := by
  have h := spline_in_coefficient_hull t n (fun _ => c) k x c c hm hl hx (fun _ _ => ⟨le_refl _, le_refl _⟩)
  exact le_antisymm h.2 h.1

/-- the coefficient hull for the tensor form (2-D tables) -/
theorem spline2d_in_coefficient_hull (tx : Nat → Rat) (nx : Nat) (ty : Nat → Rat) (ny : Nat)
    (w : Nat → Rat) (kx ky : Nat) (x y lo hi : Rat)
    (hmx : Mono tx) (hlx : ∀ j, tx j ≤ tx (nx - 1)) (hmy : Mono ty) (hly : ∀ j, ty j ≤ ty (ny - 1))
    (hx : tx kx ≤ x ∧ (x < tx (nx - kx - 1) ∨
      (x = tx (nx - 1) ∧ tx (nx - kx - 1) = tx (nx - 1) ∧ tx kx < tx (nx - 1))))
    (hy : ty ky ≤ y ∧ (y < ty (ny - ky - 1) ∨
      (y = ty (ny - 1) ∧ ty (ny - ky - 1) = ty (ny - 1) ∧ ty ky < ty (ny - 1))))
    (hw : ∀ i j, i < nx - kx - 1 → j < ny - ky - 1 →
      lo ≤ w (i * (ny - ky - 1) + j) ∧ w (i * (ny - ky - 1) + j) ≤ hi) :
    lo ≤ spline2d tx nx ty ny w kx ky x y ∧ spline2d tx nx ty ny w kx ky x y ≤ hi := by
  rw [spline2d_eq_reference tx nx ty ny w kx ky x y hmx hlx hmy hly]
  unfold spline2dRef
  have honex := basis_partition_of_unity tx nx kx x hmx hlx hx
  have honey := basis_partition_of_unity ty ny ky y hmy hly hy
  have hnx : ∀ i, 0 ≤ basis tx (tx (nx - 1)) x kx i := fun i => basis_nonneg' hmx hlx kx i
  have hny : ∀ j, 0 ≤ basis ty (ty (ny - 1)) y ky j := fun j => basis_nonneg' hmy hly ky j
  -- the inner sum with a constant weight
  have inner : ∀ (c : Rat) (i : Nat),
      sumN (ny - ky - 1) (fun j => c * basis tx (tx (nx - 1)) x kx i * basis ty (ty (ny - 1)) y ky j)
        = c * basis tx (tx (nx - 1)) x kx i := by
    intro c i
    rw [sumN_mul_left, honey, mul_one]
  constructor
  · have h1 : sumN (nx - kx - 1) (fun i => lo * basis tx (tx (nx - 1)) x kx i)
        ≤ sumN (nx - kx - 1) (fun i => sumN (ny - ky - 1) (fun j =>
            w (i * (ny - ky - 1) + j) * basis tx (tx (nx - 1)) x kx i * basis ty (ty (ny - 1)) y ky j)) := by
      apply sumN_le
      intro i hi'
      rw [← inner lo i]
      apply sumN_le
      intro j hj
      exact mul_le_mul_of_nonneg_right
        (mul_le_mul_of_nonneg_right (hw i j hi' hj).1 (hnx i)) (hny j)
    rw [sumN_mul_left, honex, mul_one] at h1
    exact h1
  · have h1 : sumN (nx - kx - 1) (fun i => sumN (ny - ky - 1) (fun j =>
            w (i * (ny - ky - 1) + j) * basis tx (tx (nx - 1)) x kx i * basis ty (ty (ny - 1)) y ky j))
        ≤ sumN (nx - kx - 1) (fun i => hi * basis tx (tx (nx - 1)) x kx i) := by
      apply sumN_le
      intro i hi'
      rw [← inner hi i]
      apply sumN_le
      intro j hj
      exact mul_le_mul_of_nonneg_right
        (mul_le_mul_of_nonneg_right (hw i j hi' hj).2 (hnx i)) (hny j)
    rw [sumN_mul_left, honex, mul_one] at h1
    exact h1

/-- the list front end (what the driver runs): a sorted knot list, enough weights, a point of the
    domain — the call succeeds and its value lies in the hull of the weights used -/
theorem spline1dL_in_coefficient_hull (t w : List Rat) (k : Nat) (x lo hi : Rat)
    (hs : t.Pairwise (· ≤ ·)) (hlen : t.length - k - 1 ≤ w.length)
    (hx : knotFn t k ≤ x ∧ (x < knotFn t (t.length - k - 1) ∨
      (x = knotFn t (t.length - 1) ∧ knotFn t (t.length - k - 1) = knotFn t (t.length - 1)
        ∧ knotFn t k < knotFn t (t.length - 1))))
    (hw : ∀ v ∈ w, lo ≤ v ∧ v ≤ hi) :
    ∃ v, spline1dL t w k x = some v ∧ lo ≤ v ∧ v ≤ hi := by
  unfold spline1dL
  rw [if_pos hlen]
  refine ⟨_, rfl, ?_⟩
  apply spline_in_coefficient_hull (knotFn t) t.length (knotFn w) k x lo hi (knotFn_mono hs)
    (knotFn_le_last hs) hx
  intro i hi'
  have hiw : i < w.length := lt_of_lt_of_le hi' hlen
  rw [knotFn_lt hiw]
  exact hw _ (List.getElem_mem hiw)

/-- finding F28 (before commit 05a1cee): with half-open intervals only, a clamped table is zero at
    its last knot, where the repaired recursion gives the last coefficient -/
theorem legacy_zero_at_last_knot_witness :
    spline1dLegacy (knotFn [0, 0, 1, 1]) 4 (knotFn [5, 7]) 1 1 = 0
    ∧ spline1d (knotFn [0, 0, 1, 1]) 4 (knotFn [5, 7]) 1 1 = 7 := by
  decide +kernel

/-! ## fitted curves: monotone coefficients give a monotone table -/

/-- **Derivative by coefficient differences** (Abel summation).  On the domain of a spline of order
    `k + 1` with `m + 1` coefficients the derivative formula equals
    `Σ_{i<m} (k+1)(w_{i+1} - w_i)/(t_{i+k+2} - t_{i+1}) B_{i+1,k}(x)`. -/
theorem dspline_eq_coefficient_differences (t : Nat → Rat) (tl x : Rat) (hm : Mono t)
    (hl : ∀ j, t j ≤ tl) (w : Nat → Rat) (k m : Nat) (hx : InDomain t tl x (k + 1) 0 (m + 1)) :
    sumN (m + 1) (fun i => w i * dbasis t tl x 1 (k + 1) i) = dsplineDiff t tl m w k x := by
  obtain ⟨h1, h2⟩ := hx
  have hB0 : basis t tl x k 0 = 0 := by
    apply basis_eq_zero_of_not_inSupport hm hl
    rintro ⟨_, g2 | ⟨g2, g3, _⟩⟩
    · exact absurd h1 (not_le.2 g2)
    · rcases h2 with h2 | ⟨_, _, h4⟩
      · rw [g2] at h2; exact absurd (hl _) (not_le.2 h2)
      · rw [show 0 + (k + 1) = 0 + k + 1 from rfl, g3] at h4; exact lt_irrefl _ h4
  have hB1 : basis t tl x k (m + 1) = 0 := by
    apply basis_eq_zero_of_not_inSupport hm hl
    rintro ⟨g1, g2 | ⟨_, _, g4⟩⟩
    · rcases h2 with h2 | ⟨h2, _, _⟩
      · exact absurd g1 (not_le.2 h2)
      · rw [h2] at g2; exact absurd (hl _) (not_le.2 g2)
    · rcases h2 with h2 | ⟨_, h3, _⟩
      · exact absurd g1 (not_le.2 h2)
      · rw [h3] at g4; exact lt_irrefl _ g4
  have hE0 : scaledBasis t tl x k 0 = 0 := by unfold scaledBasis; rw [hB0]; simp
  have hE1 : scaledBasis t tl x k (m + 1) = 0 := by unfold scaledBasis; rw [hB1]; simp
  have hL : sumN (m + 1) (fun i => w i * dbasis t tl x 1 (k + 1) i)
      = ((k : Rat) + 1) * sumN (m + 1) (fun i => w i * (scaledBasis t tl x k i - scaledBasis t tl x k (i + 1))) := by
    rw [← sumN_mul_left]
    apply sumN_congr
    intro i _
    rw [dbasis_one]; ring
  rw [hL, sumN_abel, hE0, hE1]
  unfold dsplineDiff
  have : ((k : Rat) + 1) * (w 0 * 0 - w m * 0 + sumN m (fun i => (w (i + 1) - w i) * scaledBasis t tl x k (i + 1)))
      = sumN m (fun i => ((k : Rat) + 1) * ((w (i + 1) - w i) * scaledBasis t tl x k (i + 1))) := by
    rw [sumN_mul_left]; ring
  rw [this]
  apply sumN_congr
  intro i _
  have e : i + 1 + k + 1 = i + k + 2 := by omega
  unfold scaledBasis
  rw [e]
  split
  · ring
  · ring

/-- **Increasing coefficients give a non-negative slope everywhere on the domain** — this is why
    `BSpline1D.fit` may impose monotonicity on the coefficient differences only. -/
theorem increasing_coefficients_slope_nonneg (t : Nat → Rat) (n : Nat) (w : Nat → Rat) (k m : Nat)
    (x : Rat) (hm : Mono t) (hl : ∀ j, t j ≤ t (n - 1)) (hn : n - (k + 1) - 1 = m + 1)
    (hx : InDomain t (t (n - 1)) x (k + 1) 0 (m + 1)) (hw : ∀ i, i < m → w i ≤ w (i + 1)) :
    0 ≤ dspline1d t n w (k + 1) 1 x := by
  unfold dspline1d
  rw [hn, dspline_eq_coefficient_differences t _ x hm hl w k m hx]
  unfold dsplineDiff
  apply sumN_nonneg
  intro i hi
  split
  · rename_i hg
    have hk : (0 : Rat) ≤ (k : Rat) + 1 := by positivity
    exact mul_nonneg (div_nonneg (mul_nonneg hk (sub_nonneg.2 (hw i hi))) (le_of_lt (sub_pos.2 hg)))
      (basis_nonneg' hm hl k (i + 1))
  · exact le_refl _

/-- decreasing coefficients give a non-positive slope everywhere on the domain -/
theorem decreasing_coefficients_slope_nonpos (t : Nat → Rat) (n : Nat) (w : Nat → Rat) (k m : Nat)
    (x : Rat) (hm : Mono t) (hl : ∀ j, t j ≤ t (n - 1)) (hn : n - (k + 1) - 1 = m + 1)
    (hx : InDomain t (t (n - 1)) x (k + 1) 0 (m + 1)) (hw : ∀ i, i < m → w (i + 1) ≤ w i) :
    dspline1d t n w (k + 1) 1 x ≤ 0 := by
  unfold dspline1d
  rw [hn, dspline_eq_coefficient_differences t _ x hm hl w k m hx]
  unfold dsplineDiff
  have : sumN m (fun i => if t (i + 1) < t (i + k + 2) then
      ((k : Rat) + 1) * (w (i + 1) - w i) / (t (i + k + 2) - t (i + 1)) * basis t (t (n - 1)) x k (i + 1)
      else 0) ≤ sumN m (fun _ => 0) := by
    apply sumN_le
    intro i hi
    split
    · rename_i hg
      have hk : (0 : Rat) ≤ (k : Rat) + 1 := by positivity
      have hd : (0 : Rat) < t (i + k + 2) - t (i + 1) := sub_pos.2 hg
      have h1 : ((k : Rat) + 1) * (w (i + 1) - w i) ≤ 0 :=
        mul_nonpos_of_nonneg_of_nonpos hk (sub_nonpos.2 (hw i hi))
      exact mul_nonpos_of_nonpos_of_nonneg (div_nonpos_of_nonpos_of_nonneg h1 (le_of_lt hd))
        (basis_nonneg' hm hl k (i + 1))
    · exact le_refl _
  rw [sumN_zero (fun _ _ => rfl)] at this
  exact this

/-! ## inverse lookup -/

/-- **Soundness of `reverse_call`.**  Whatever the root finder does within its contract (residual
    tolerance `ε`): if the call returns, the result has one entry per input, NaN inputs give NaN,
    and every other entry is an `x` inside the search domain with `|f x - y| ≤ ε`. -/
theorem reverse_call_sound (c : RevCfg) (root : Root) (ε : Rat) (hr : RootSound ε root)
    (ys xs : List Y) (h : reverseCall c root ys = .ok xs) :
    List.Forall₂ (fun y x => match y with
      | none => x = none
      | some q => ∃ r, x = some r ∧ c.lo ≤ r ∧ r ≤ c.hi ∧ -ε ≤ c.f r - q ∧ c.f r - q ≤ ε) ys xs := by
  unfold reverseCall at h
  split at h
  · cases h
  · exact invertAll_sound hr ys xs h

/-- with an exact root finder the returned `x` has `f x = y` exactly -/
theorem reverse_call_sound_exact (c : RevCfg) (root : Root) (hr : RootSound 0 root)
    (ys xs : List Y) (h : reverseCall c root ys = .ok xs) :
    List.Forall₂ (fun y x => match y with
      | none => x = none
      | some q => ∃ r, x = some r ∧ c.lo ≤ r ∧ r ≤ c.hi ∧ c.f r = q) ys xs := by
  refine List.Forall₂.imp ?_ (reverse_call_sound c root 0 hr ys xs h)
  intro y x hyx
  cases y with
  | none => exact hyx
  | some q =>
    obtain ⟨r, h1, h2, h3, h4, h5⟩ := hyx
    exact ⟨r, h1, h2, h3, by linarith⟩

/-- NaN in, NaN out (scalar form) -/
theorem reverse_call_nan (c : RevCfg) (root : Root) : reverseCall c root [none] = .ok [none] := by
  unfold reverseCall finiteOf
  simp [invertAll, invertOne]

/-- **Values outside the range are rejected**, for increasing and for decreasing tables alike (the
    range is `sorted(self.range)`); nothing is returned for the other entries either. -/
theorem reverse_call_rejects_outside (c : RevCfg) (root : Root) (ys : List Y) (q : Rat)
    (hd : c.detect = true) (hq : some q ∈ ys)
    (hout : q < min (c.f c.dl) (c.f c.du) ∨ max (c.f c.dl) (c.f c.du) < q) :
    reverseCall c root ys = .error .range := by
  unfold reverseCall
  have : (finiteOf ys).any (fun q => decide (q < c.rangeLo) || decide (c.rangeHi < q)) = true := by
    rw [List.any_eq_true]
    refine ⟨q, mem_finiteOf.2 hq, ?_⟩
    unfold RevCfg.rangeLo RevCfg.rangeHi
    rcases hout with h | h <;> simp [h]
  rw [hd, this]
  rfl

/-- **… also when the range check is switched off** (`detect_range_error=False`): on the table's
    own domain a value outside the range gives a bracket without a sign change, which the root
    finder refuses — the call raises in either mode and returns nothing. -/
theorem reverse_call_rejects_outside_any_mode (c : RevCfg) (root : Root) (href : RootRefuses root)
    (ys : List Y) (q : Rat) (hdom : c.ld = none ∧ c.ud = none) (hq : some q ∈ ys)
    (hout : q < min (c.f c.dl) (c.f c.du) ∨ max (c.f c.dl) (c.f c.du) < q) :
    ∃ e, reverseCall c root ys = .error e := by
  by_cases hd : c.detect = true
  · exact ⟨_, reverse_call_rejects_outside c root ys q hd hq hout⟩
  · have hlo : c.lo = c.dl := by unfold RevCfg.lo; rw [hdom.1]; rfl
    have hhi : c.hi = c.du := by unfold RevCfg.hi; rw [hdom.2]; rfl
    have hpos : 0 < (c.f c.lo - q) * (c.f c.hi - q) := by
      rw [hlo, hhi]
      rcases hout with h | h
      · have h1 := lt_of_lt_of_le h (min_le_left _ _)
        have h2 := lt_of_lt_of_le h (min_le_right _ _)
        exact mul_pos (by linarith) (by linarith)
      · have h1 := lt_of_le_of_lt (le_max_left _ _) h
        have h2 := lt_of_le_of_lt (le_max_right _ _) h
        exact mul_pos_of_neg_of_neg (by linarith) (by linarith)
    have hnone : root (fun x => c.f x - q) c.lo c.hi = none := href _ _ _ hpos
    unfold reverseCall
    have : c.detect = false := by cases h : c.detect <;> simp_all
    rw [this]
    simp only [Bool.false_and]
    exact invertAll_error_of_refused hq hnone

/-- **Every value in the range is inverted** (default search domain, root finder complete on the
    sign-changing brackets of this table), for increasing and decreasing tables. -/
theorem reverse_call_accepts_in_range (c : RevCfg) (root : Root) (ε : Rat) (hr : RootSound ε root)
    (hcomp : RootCompleteFor c.f root) (ys : List Y) (hdom : c.ld = none ∧ c.ud = none)
    (hle : c.dl ≤ c.du)
    (hin : ∀ q, some q ∈ ys → min (c.f c.dl) (c.f c.du) ≤ q ∧ q ≤ max (c.f c.dl) (c.f c.du)) :
    ∃ xs, reverseCall c root ys = .ok xs ∧
      List.Forall₂ (fun y x => match y with
        | none => x = none
        | some q => ∃ r, x = some r ∧ c.dl ≤ r ∧ r ≤ c.du ∧ -ε ≤ c.f r - q ∧ c.f r - q ≤ ε) ys xs := by
  have hlo : c.lo = c.dl := by unfold RevCfg.lo; rw [hdom.1]; rfl
  have hhi : c.hi = c.du := by unfold RevCfg.hi; rw [hdom.2]; rfl
  have hno : (finiteOf ys).any (fun q => decide (q < c.rangeLo) || decide (c.rangeHi < q)) = false := by
    rw [Bool.eq_false_iff]
    intro hany
    rw [List.any_eq_true] at hany
    obtain ⟨q, hq, hb⟩ := hany
    obtain ⟨h1, h2⟩ := hin q (mem_finiteOf.1 hq)
    unfold RevCfg.rangeLo RevCfg.rangeHi at hb
    simp at hb
    rcases hb with hb | hb
    · exact absurd h1 (not_le.2 (lt_min hb.1 hb.2))
    · exact absurd h2 (not_le.2 (max_lt hb.1 hb.2))
  have htot : ∃ xs, invertAll c root ys = .ok xs := by
    apply invertAll_total
    intro q hq
    obtain ⟨h1, h2⟩ := hin q hq
    apply hcomp
    · rw [hlo, hhi]; exact hle
    · rw [hlo, hhi]; exact bracket_of_between h1 h2
  obtain ⟨xs, hxs⟩ := htot
  have hcall : reverseCall c root ys = .ok xs := by
    unfold reverseCall
    rw [hno]
    simpa using hxs
  refine ⟨xs, hcall, ?_⟩
  have := reverse_call_sound c root ε hr ys xs hcall
  rw [hlo, hhi] at this
  exact this

/-- finding F8a (before commit 0fbac02): the range check in domain order rejects every interior
    value of a decreasing table; the repaired check accepts it -/
theorem legacy_range_check_rejects_decreasing_witness :
    let c : RevCfg := { f := fun x => 10 - 2 * x, dl := 0, du := 3, ld := none, ud := none, detect := true }
    let root : Root := fun g a _ => some (a + g a / 2)
    reverseCallLegacy c root [some 6] = .error .range ∧ reverseCall c root [some 6] = .ok [some 2] := by
  decide +kernel

/-! ## fit cache -/

/-- **The reuse decision of `pre()`**: the cached fit is loaded exactly when the `.npz` exists, is
    strictly newer than the csv, strictly newer than the options file (when there is one), and
    can be read. -/
theorem cache_reuse_iff_newer (F : Files) :
    validCache F = true ↔
      ∃ m, F.npz = some m ∧ F.csvM < m ∧ (∀ i, F.ini = some i → i < m) ∧ F.loadable = true := by
  unfold validCache
  cases hn : F.npz with
  | none => simp
  | some m =>
    cases hi : F.ini with
    | none => simp
    | some i => simp [and_assoc]

/-- finding F8b (before commit 7cfb877): a cache without an options file made the check raise -/
theorem legacy_cache_check_raises_witness :
    validCacheLegacy { csvM := 1, ini := none, npz := some 5, loadable := true } = none
    ∧ validCache { csvM := 1, ini := none, npz := some 5, loadable := true } = true := by
  decide

/-- one `pre()`: the table handed out is the fit of the current data and options, and it comes
    from the cache exactly when the cache is newer (`cache_reuse_iff_newer`) -/
theorem pre_serves_current (T : Nat) (s : St) (hinv : CacheInv T s) (τ : Nat) :
    ∃ b, (step s (τ, .pre)).served = s.served ++ [(s.current, b)]
      ∧ (b = true ↔ validCache s.files = true) :=
  let ⟨b, h1, h2, _⟩ := step_pre_served hinv τ
  ⟨b, h1, h2⟩

/-- **Every edit-and-reload history** (csv edits, options edits, damaged cache files, reloads, with
    time stamps that never go backwards — equal stamps allowed): each `pre()` hands out the fit of
    the data and options that are current at that moment; a cached fit is never served stale. -/
theorem served_is_current : ∀ (evs : List (Nat × Ev)) (T : Nat) (s : St), CacheInv T s → Chrono T evs →
    (∀ e ∈ evs, e.2 ≠ Ev.delIni) →
    (run s evs).served.map Prod.fst = s.served.map Prod.fst ++ specServed s.current evs := by
  intro evs
  induction evs with
  | nil => intro T s _ _ _; simp [run, specServed]
  | cons e rest ih =>
    intro T s hinv hch hno
    obtain ⟨τ, ev⟩ := e
    obtain ⟨hτ, hrest⟩ := hch
    have hne : ev ≠ Ev.delIni := hno (τ, ev) (List.mem_cons_self)
    have hinv' := step_inv hinv τ hτ ev hne
    have hrec := ih τ (step s (τ, ev)) hinv' hrest (fun e he => hno e (List.mem_cons_of_mem _ he))
    have hrun : run s ((τ, ev) :: rest) = run (step s (τ, ev)) rest := rfl
    rw [hrun, hrec]
    cases ev with
    | delIni => exact absurd rfl hne
    | pre =>
      obtain ⟨b, h1, _, h3⟩ := step_pre_served hinv τ
      rw [h1, h3]
      simp [specServed]
    | editCsv d => rfl
    | editIni o => rfl
    | corrupt =>
      have hcur : (step s (τ, Ev.corrupt)).current = s.current := rfl
      rw [step_served_of_ne_pre s τ Ev.corrupt (by decide), hcur]
      rfl

/-- a fresh folder (no cache yet) satisfies the invariant -/
theorem fresh_folder_inv (T : Nat) (s : St) (h : s.cache = none) : CacheInv T s := by
  intro id m l hc
  rw [h] at hc
  cases hc

/-- candidate finding F29 (current code): removing the options file does not invalidate a cache
    that was fitted with its options — the second `pre()` serves the fit for options `1` from the
    cache although the options are now the defaults -/
theorem ini_deletion_serves_stale_witness :
    let s0 : St := { data := 1, csvM := 1, ini := some (1, 2), cache := none, served := [] }
    let s := run s0 [(10, .pre), (20, .delIni), (30, .pre)]
    s.served = [((1, some 1), false), ((1, some 1), true)] ∧ s.current = (1, none) := by
  decide

/-! ## non-vacuity: concrete instances satisfying the hypotheses -/

example : List.Pairwise (· ≤ ·) ([0, 0, 0, 0, 1, 3, 3, 3, 3] : List Rat) := by decide +kernel

/-- an interior point and the right end point of a clamped cubic table are in the domain -/
example :
    let t := knotFn [0, 0, 0, 0, 1, 3, 3, 3, 3]
    (t 3 ≤ (1 / 2 : Rat) ∧ ((1 / 2 : Rat) < t (9 - 3 - 1) ∨ ((1 / 2 : Rat) = t 8 ∧ t (9 - 3 - 1) = t 8 ∧ t 3 < t 8)))
    ∧ (t 3 ≤ (3 : Rat) ∧ ((3 : Rat) < t (9 - 3 - 1) ∨ ((3 : Rat) = t 8 ∧ t (9 - 3 - 1) = t 8 ∧ t 3 < t 8))) := by
  decide +kernel

example : spline1dL [0, 0, 0, 0, 1, 3, 3, 3, 3] [1, 2, 3, 4, 5] 3 (1 / 2) = some (25 / 12) := by
  decide +kernel

example : spline1dL [0, 0, 0, 0, 1, 3, 3, 3, 3] [1, 2, 3, 4, 5] 3 3 = some 5 := by
  decide +kernel

example : InDomain (knotFn [0, 0, 0, 0, 1, 3, 3, 3, 3]) 3 (1 / 2) 3 0 5 := by
  unfold InDomain; decide +kernel

/-- a root oracle satisfying both contracts exists (exact inverse of an affine, decreasing table;
    every answer is verified before it is returned, so it is sound for every function) -/
def affRoot : Root := fun g a b =>
  if a ≤ a + g a / 2 ∧ a + g a / 2 ≤ b ∧ g (a + g a / 2) = 0 then some (a + g a / 2) else none

example : RootSound 0 affRoot ∧ RootCompleteFor (fun x => 10 - 2 * x) affRoot := by
  constructor
  · intro g a b r h
    unfold affRoot at h
    split at h
    · rename_i hc
      cases h
      exact ⟨hc.1, hc.2.1, by rw [hc.2.2]; simp, by rw [hc.2.2]⟩
    · cases h
  · intro q a b hab hs
    unfold affRoot
    have hga : 0 ≤ 10 - 2 * a - q := by
      by_contra hneg
      have h1 : 10 - 2 * a - q < 0 := not_le.1 hneg
      have h2 : 10 - 2 * b - q < 0 := by linarith
      have : 0 < (10 - 2 * a - q) * (10 - 2 * b - q) := mul_pos_of_neg_of_neg h1 h2
      linarith
    have hgb : 10 - 2 * b - q ≤ 0 := by
      by_contra hpos
      have h2 : 0 < 10 - 2 * b - q := not_le.1 hpos
      have h1 : 0 < 10 - 2 * a - q := by linarith
      have : 0 < (10 - 2 * a - q) * (10 - 2 * b - q) := mul_pos h1 h2
      linarith
    rw [if_pos]
    · rfl
    · refine ⟨by linarith, by linarith, by ring⟩

/-! ### set-up of `BSpline1D.fit`: what the least-squares solve is given -/

/-- **The automatic knot vector has one coefficient per data point**: with `N ≥ k + 1` data points the
    Fitpack rule yields `N + k + 1` knots, i.e. `N` basis functions (for odd and even `k`), so an
    unconstrained fit can interpolate the table. -/
theorem fit_knots_count (x : List Rat) (k : Nat) (δ : Rat) (h : k + 1 ≤ x.length) :
    (fitKnots x k δ none).length = x.length + k + 1 ∧
    (fitKnots x k δ none).length - k - 1 = x.length := by
  rw [fitKnots_length x k δ h]
  exact ⟨rfl, by omega⟩

/-- with user-supplied interior knots the vector is the interior knots clamped by `k + 1` copies at each end -/
theorem fit_knots_count_given (x l : List Rat) (k : Nat) (δ : Rat) :
    (fitKnots x k δ (some l)).length = l.length + 2 * (k + 1) := fitKnots_length_given x k δ l

/-- **The knots enclose the data range strictly** (first knot `x[0] - δ`, last knot `x[-1] + δ`, `δ > 0`),
    so the table evaluates on the whole data range including both end points. -/
theorem fit_knots_enclose (x : List Rat) (k : Nat) (δ : Rat) (interior : Option (List Rat)) (hδ : 0 < δ) :
    (fitKnots x k δ interior).headD 0 < x.headD 0 ∧
    x.getLastD 0 < (fitKnots x k δ interior).getLastD 0 := by
  constructor
  · simp only [fitKnots, List.replicate_succ, List.cons_append, List.headD_cons]
    linarith
  · have : (fitKnots x k δ interior).getLastD 0 = x.getLastD 0 + δ := by
      simp only [fitKnots, List.replicate_succ']
      rw [← List.append_assoc, List.getLastD_concat]
    rw [this]; linarith

/-- **`monotonicity > 0` makes every feasible coefficient vector strictly increasing** (rows
    `ε ≤ c[i+1] - c[i]`, no upper bound), which by `increasing_coefficients_slope_nonneg` makes the
    fitted curve non-decreasing on the whole domain, not only at the test points. -/
theorem fit_monotone_rows_increasing (mono curv : Int) (ε : Rat) (hε : 0 < ε) (hm : 0 < mono)
    (c : Nat → Rat) (m : Nat) (hf : dcFeasible (fitBounds mono curv ε) c m) :
    ∀ i, i < m → c i < c (i + 1) := by
  intro i hi
  have h := (hf i hi).1
  simp only [fitBounds, hm, if_true, EVal.leFin, decide_eq_true_eq] at h
  linarith

theorem fit_monotone_rows_decreasing (mono curv : Int) (ε : Rat) (hε : 0 < ε) (hm : mono < 0)
    (c : Nat → Rat) (m : Nat) (hf : dcFeasible (fitBounds mono curv ε) c m) :
    ∀ i, i < m → c (i + 1) < c i := by
  intro i hi
  have h := (hf i hi).2
  simp only [fitBounds, hm, if_true, EVal.finLe, decide_eq_true_eq] at h
  linarith

/-- `monotonicity = 0` constrains nothing: every coefficient vector satisfies the rows -/
theorem fit_unconstrained_rows_free (curv : Int) (ε : Rat) (c : Nat → Rat) (m : Nat) :
    dcFeasible (fitBounds 0 curv ε) c m := by
  intro i _
  simp [fitBounds, EVal.leFin, EVal.finLe]

/-- feasible monotone rows give a non-negative slope everywhere on the domain (composition with the
    coefficient theorem) -/
theorem fit_monotone_slope_nonneg (t : Nat → Rat) (n : Nat) (w : Nat → Rat) (k m : Nat) (x : Rat)
    (mono curv : Int) (ε : Rat) (hε : 0 < ε) (hmono : 0 < mono)
    (hm : Mono t) (hl : ∀ j, t j ≤ t (n - 1)) (hn : n - (k + 1) - 1 = m + 1)
    (hx : InDomain t (t (n - 1)) x (k + 1) 0 (m + 1))
    (hf : dcFeasible (fitBounds mono curv ε) w m) :
    0 ≤ dspline1d t n w (k + 1) 1 x :=
  increasing_coefficients_slope_nonneg t n w k m x hm hl hn hx
    (fun i hi => le_of_lt (fit_monotone_rows_increasing mono curv ε hε hmono w m hf i hi))

example : fitKnots [0, 1, 2, 3, 4, 5] 3 (1/10) none = [-1/10, -1/10, -1/10, -1/10, 2, 3, 51/10, 51/10, 51/10, 51/10] := by
  decide +kernel

example : fitKnots [0, 1, 2, 3, 4, 5] 2 (1/10) none = [-1/10, -1/10, -1/10, 3/2, 5/2, 7/2, 51/10, 51/10, 51/10] := by
  decide +kernel

example : dcFeasible (fitBounds 1 0 (1/10)) (fun i => (i : Rat)) 3 := by
  intro i hi
  have : i = 0 ∨ i = 1 ∨ i = 2 := by omega
  rcases this with rfl | rfl | rfl <;> simp [fitBounds, EVal.leFin, EVal.finLe] <;> norm_num

example :
    let c : RevCfg := { f := fun x => 10 - 2 * x, dl := 0, du := 3, ld := none, ud := none, detect := true }
    reverseCall c (fun g a _ => some (a + g a / 2)) [some 6, none, some 10] = .ok [some 2, none, some 0] := by
  decide +kernel

example : Chrono 0 [(10, Ev.pre), (10, Ev.editCsv 2), (12, Ev.pre), (12, Ev.editIni 1), (30, Ev.pre)] := by
  simp [Chrono]

example :
    let s0 : St := { data := 1, csvM := 1, ini := none, cache := none, served := [] }
    (run s0 [(10, .pre), (10, .editCsv 2), (12, .pre), (12, .editIni 1), (30, .pre), (31, .pre)]).served
      = [((1, none), false), ((2, none), false), ((2, some 1), false), ((2, some 1), true)] := by
  decide

end RtcVerif.C20
