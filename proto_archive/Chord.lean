import Mathlib.Analysis.Convex.Mul
import Mathlib.Analysis.Convex.Slope
import Mathlib.Algebra.Order.Field.Rat
import Mathlib.Tactic.Linarith
import Mathlib.Tactic.FieldSimp

/-! Prototype (C17): chords of x^n majorise it inside their segment and minorise it outside. -/
namespace Rtc
open Set

def chord (n : ℕ) (a b x : ℚ) : ℚ := a ^ n + (b ^ n - a ^ n) / (b - a) * (x - a)

theorem chord_ge_inside (n : ℕ) (a b x : ℚ) (ha : 0 ≤ a) (hab : a < b) (hax : a ≤ x) (hxb : x ≤ b) :
    x ^ n ≤ chord n a b x := by
  have hc := convexOn_pow (𝕜 := ℚ) n
  unfold chord
  have hba : 0 < b - a := sub_pos.mpr hab
  rcases eq_or_lt_of_le hax with rfl | hax'
  · simp
  rcases eq_or_lt_of_le hxb with rfl | hxb'
  · field_simp; ring_nf; rfl
  have key := hc.secant_mono_aux1 (x := a) (y := x) (z := b) (mem_Ici.mpr ha)
    (mem_Ici.mpr (le_trans ha (le_of_lt hab))) hax' hxb'
  skip
  rw [div_mul_eq_mul_div, ← sub_le_iff_le_add', le_div_iff₀ hba]
  nlinarith [key]

theorem chord_le_right (n : ℕ) (a b x : ℚ) (ha : 0 ≤ a) (hab : a < b) (hbx : b ≤ x) :
    chord n a b x ≤ x ^ n := by
  have hc := convexOn_pow (𝕜 := ℚ) n
  unfold chord
  have hba : 0 < b - a := sub_pos.mpr hab
  rcases eq_or_lt_of_le hbx with rfl | hbx'
  · field_simp; ring_nf; rfl
  have key := hc.secant_mono_aux1 (x := a) (y := b) (z := x) (mem_Ici.mpr ha)
    (mem_Ici.mpr (le_trans ha (le_trans (le_of_lt hab) hbx))) hab hbx'
  skip
  rw [div_mul_eq_mul_div, ← le_sub_iff_add_le', div_le_iff₀ hba]
  nlinarith [key]

theorem chord_le_left (n : ℕ) (a b x : ℚ) (hx : 0 ≤ x) (hab : a < b) (hxa : x ≤ a) :
    chord n a b x ≤ x ^ n := by
  have hc := convexOn_pow (𝕜 := ℚ) n
  unfold chord
  have hba : 0 < b - a := sub_pos.mpr hab
  rcases eq_or_lt_of_le hxa with rfl | hxa'
  · simp
  have key := hc.secant_mono_aux1 (x := x) (y := a) (z := b) (mem_Ici.mpr hx)
    (mem_Ici.mpr (le_trans hx (le_trans hxa (le_of_lt hab)))) hxa' hab
  skip
  rw [div_mul_eq_mul_div, ← le_sub_iff_add_le', div_le_iff₀ hba]
  nlinarith [key]

#print axioms chord_ge_inside
#print axioms chord_le_right
#print axioms chord_le_left
end Rtc
