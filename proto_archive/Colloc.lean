/-!
Prototype (scratch): flat-vector model of the collocation row assembly and its refinement to the
theta-method spec.  Import-free model part.
-/
namespace Rtc

/-- decision vector as a total function -/
abbrev Vec := Nat → Rat

/-- `inds[:-1]` / `inds[1:]` for the index list of variable `v` of member `m` -/
def explicitInds (idx : Nat → Nat → Nat) (k n : Nat) : List Nat :=
  (List.range k).flatMap (fun v => (List.range (n - 1)).map (fun i => idx v i))
def implicitInds (idx : Nat → Nat → Nat) (k n : Nat) : List Nat :=
  (List.range k).flatMap (fun v => (List.range (n - 1)).map (fun i => idx v (i + 1)))

/-- `np.tile(np.repeat(nominals, n-1), 2)` -/
def repeatedNominals (nom : Nat → Rat) (k n : Nat) : List Rat :=
  let r := (List.range k).flatMap (fun v => List.replicate (n - 1) (nom v))
  r ++ r

/-- `vertcat(X[explicit], X[implicit]) * repeated_nominals` -/
def interpolatedFlat (X : Vec) (idx : Nat → Nat → Nat) (nom : Nat → Rat) (k n : Nat) : List Rat :=
  List.zipWith (· * ·) ((explicitInds idx k n ++ implicitInds idx k n).map X) (repeatedNominals nom k n)

/-- column-major reshape to `(rows, cols)`: entry `(i, j)` -/
def reshapeAt (flat : List Rat) (rows : Nat) (i j : Nat) : Rat := flat.getD (j * rows + i) 0

/-- row `i` of the `accumulation_U` matrix restricted to the state columns: `2k` entries -/
def stateCols (X : Vec) (idx : Nat → Nat → Nat) (nom : Nat → Rat) (k n i : Nat) : List Rat :=
  (List.range (2 * k)).map (fun j => reshapeAt (interpolatedFlat X idx nom k n) (n - 1) i j)

/-- the residual function of the model: states, derivatives, constant inputs, time, parameters -/
abbrev Residual := List Rat → List Rat → List Rat → Rat → List Rat → List Rat

def vsub (a b : List Rat) : List Rat := List.zipWith (· - ·) a b
def vscale (c : Rat) (a : List Rat) : List Rat := a.map (c * ·)
def vadd (a b : List Rat) : List Rat := List.zipWith (· + ·) a b

/-- one collocation row block, as the code computes it from the mapped inputs -/
def collocBlock (F : Residual) (theta : Rat) (t0 : Rat) (p : List Rat)
    (s0 s1 c0 c1 : List Rat) (ta tb : Rat) : List Rat :=
  let dt := tb - ta
  let fd := (vsub s1 s0).map (· / dt)
  if theta = 0 then F s0 fd c0 (ta - t0) p
  else if theta = 1 then F s1 fd c1 (tb - t0) p
  else vadd (vscale (1 - theta) (F s0 fd c0 (ta - t0) p)) (vscale theta (F s1 fd c1 (tb - t0) p))

/-- the code path: slice the U row into explicit / implicit halves -/
def collocRowsCode (F : Residual) (theta t0 : Rat) (p : List Rat) (X : Vec)
    (idx : Nat → Nat → Nat) (nom : Nat → Rat) (k n : Nat) (ci : Nat → List Rat) (ts : Nat → Rat)
    (i : Nat) : List Rat :=
  let u := stateCols X idx nom k n i
  collocBlock F theta t0 p (u.take k) (u.drop k) (ci i) (ci (i + 1)) (ts i) (ts (i + 1))

/-- spec: physical trajectory and theta-method residual -/
def decode (X : Vec) (idx : Nat → Nat → Nat) (nom : Nat → Rat) (k i : Nat) : List Rat :=
  (List.range k).map (fun v => nom v * X (idx v i))

def thetaSpec (F : Residual) (theta t0 : Rat) (p : List Rat) (z : Nat → List Rat)
    (ci : Nat → List Rat) (ts : Nat → Rat) (i : Nat) : List Rat :=
  let zd := (vsub (z (i + 1)) (z i)).map (· / (ts (i + 1) - ts i))
  vadd (vscale (1 - theta) (F (z i) zd (ci i) (ts i - t0) p))
       (vscale theta (F (z (i + 1)) zd (ci (i + 1)) (ts (i + 1) - t0) p))

end Rtc
