import Colloc
import Mathlib.Tactic.Linarith
import Mathlib.Tactic.Ring
import Mathlib.Algebra.Order.Field.Rat
import Mathlib.Data.List.GetD

namespace Rtc

/-- element of a concatenation of equal-length blocks -/
theorem flatMap_range_getD {α} (f : Nat → List α) (r : Nat) (d : α) (hlen : ∀ v, (f v).length = r) :
    ∀ (k j i : Nat), j < k → i < r →
      ((List.range k).flatMap f).getD (j * r + i) d = (f j).getD i d := by
  intro k
  induction k with
  | zero => intro j i hj; omega
  | succ k ih =>
    intro j i hj hi
    rw [List.range_succ, List.flatMap_append]
    have hl : ((List.range k).flatMap f).length = k * r := by
      clear ih hj
      induction k with
      | zero => simp
      | succ k ih2 => rw [List.range_succ, List.flatMap_append, List.length_append, ih2]; simp [hlen]; ring
    by_cases hjk : j < k
    · have hlt : j * r + i < ((List.range k).flatMap f).length := by
        rw [hl]; calc j * r + i < j * r + r := by omega
          _ = (j + 1) * r := by ring
          _ ≤ k * r := Nat.mul_le_mul_right r hjk
      rw [List.getD_append _ _ _ _ hlt]
      exact ih j i hjk hi
    · have hjeq : j = k := by omega
      subst hjeq
      have hge : ((List.range j).flatMap f).length ≤ j * r + i := by rw [hl]; omega
      rw [List.getD_append_right _ _ _ _ hge, hl]
      simp


theorem explicit_len (idx : Nat → Nat → Nat) (k n : Nat) : (explicitInds idx k n).length = k * (n - 1) := by
  unfold explicitInds
  induction k with
  | zero => simp
  | succ k ih => rw [List.range_succ, List.flatMap_append, List.length_append, ih]; simp; ring

theorem implicit_len (idx : Nat → Nat → Nat) (k n : Nat) : (implicitInds idx k n).length = k * (n - 1) := by
  unfold implicitInds
  induction k with
  | zero => simp
  | succ k ih => rw [List.range_succ, List.flatMap_append, List.length_append, ih]; simp; ring

theorem repl_len (nom : Nat → Rat) (k n : Nat) :
    ((List.range k).flatMap (fun v => List.replicate (n - 1) (nom v))).length = k * (n - 1) := by
  induction k with
  | zero => simp
  | succ k ih => rw [List.range_succ, List.flatMap_append, List.length_append, ih]; simp; ring

/-- entry (i, j) of the reshaped matrix: explicit half -/
theorem reshape_explicit (X : Vec) (idx : Nat → Nat → Nat) (nom : Nat → Rat) (k n i j : Nat)
    (hj : j < k) (hi : i < n - 1) :
    reshapeAt (interpolatedFlat X idx nom k n) (n - 1) i j = nom j * X (idx j i) := by
  unfold reshapeAt interpolatedFlat repeatedNominals
  have hpos : j * (n - 1) + i < k * (n - 1) := by
    calc j * (n - 1) + i < j * (n - 1) + (n - 1) := by omega
      _ = (j + 1) * (n - 1) := by ring
      _ ≤ k * (n - 1) := Nat.mul_le_mul_right _ hj
  rw [List.getD_eq_getElem?_getD, List.getElem?_zipWith]
  simp only [List.map_append, List.getElem?_map]
  rw [List.getElem?_append_left (by rw [List.length_map, explicit_len]; exact hpos)]
  rw [List.getElem?_append_left (by rw [repl_len]; exact hpos)]
  have h1 := flatMap_range_getD (fun v => (List.range (n - 1)).map (fun i => idx v i)) (n - 1) 0
    (by intro v; simp) k j i hj hi
  have h2 := flatMap_range_getD (fun v => List.replicate (n - 1) (nom v)) (n - 1) 0
    (by intro v; simp) k j i hj hi
  rw [List.getD_eq_getElem?_getD] at h1 h2
  have e1 : (explicitInds idx k n)[j * (n - 1) + i]? = some (idx j i) := by
    have hlt : j * (n - 1) + i < (explicitInds idx k n).length := by rw [explicit_len]; exact hpos
    rw [List.getElem?_eq_getElem hlt]
    unfold explicitInds at *
    rw [List.getElem?_eq_getElem hlt] at h1
    simp only [Option.getD_some] at h1
    rw [h1]; simp [List.getD_eq_getElem?_getD, hi]
  have e2 : ((List.range k).flatMap fun v => List.replicate (n - 1) (nom v))[j * (n - 1) + i]? = some (nom j) := by
    have hlt : j * (n - 1) + i < ((List.range k).flatMap fun v => List.replicate (n - 1) (nom v)).length := by
      rw [repl_len]; exact hpos
    rw [List.getElem?_eq_getElem hlt]
    rw [List.getElem?_eq_getElem hlt] at h2
    simp only [Option.getD_some] at h2
    rw [h2]; simp [List.getD_eq_getElem?_getD, hi]
  simp only [List.getElem?_map, e1, e2]
  simp [mul_comm]


/-- entry (i, k + j) of the reshaped matrix: implicit half -/
theorem reshape_implicit (X : Vec) (idx : Nat → Nat → Nat) (nom : Nat → Rat) (k n i j : Nat)
    (hj : j < k) (hi : i < n - 1) :
    reshapeAt (interpolatedFlat X idx nom k n) (n - 1) i (k + j) = nom j * X (idx j (i + 1)) := by
  unfold reshapeAt interpolatedFlat repeatedNominals
  have hpos : j * (n - 1) + i < k * (n - 1) := by
    calc j * (n - 1) + i < j * (n - 1) + (n - 1) := by omega
      _ = (j + 1) * (n - 1) := by ring
      _ ≤ k * (n - 1) := Nat.mul_le_mul_right _ hj
  have hsplit : (k + j) * (n - 1) + i = k * (n - 1) + (j * (n - 1) + i) := by ring
  rw [List.getD_eq_getElem?_getD, List.getElem?_zipWith]
  simp only [List.map_append]
  rw [hsplit]
  rw [List.getElem?_append_right (by rw [List.length_map, explicit_len]; omega)]
  rw [List.getElem?_append_right (by rw [repl_len]; omega)]
  simp only [List.length_map, explicit_len, repl_len, Nat.add_sub_cancel_left]
  have h1 := flatMap_range_getD (fun v => (List.range (n - 1)).map (fun i => idx v (i + 1))) (n - 1) 0
    (by intro v; simp) k j i hj hi
  have h2 := flatMap_range_getD (fun v => List.replicate (n - 1) (nom v)) (n - 1) 0
    (by intro v; simp) k j i hj hi
  rw [List.getD_eq_getElem?_getD] at h1 h2
  have e1 : (implicitInds idx k n)[j * (n - 1) + i]? = some (idx j (i + 1)) := by
    have hlt : j * (n - 1) + i < (implicitInds idx k n).length := by rw [implicit_len]; exact hpos
    rw [List.getElem?_eq_getElem hlt]
    unfold implicitInds at *
    rw [List.getElem?_eq_getElem hlt] at h1
    simp only [Option.getD_some] at h1
    rw [h1]; simp [List.getD_eq_getElem?_getD, hi]
  have e2 : ((List.range k).flatMap fun v => List.replicate (n - 1) (nom v))[j * (n - 1) + i]? = some (nom j) := by
    have hlt : j * (n - 1) + i < ((List.range k).flatMap fun v => List.replicate (n - 1) (nom v)).length := by
      rw [repl_len]; exact hpos
    rw [List.getElem?_eq_getElem hlt]
    rw [List.getElem?_eq_getElem hlt] at h2
    simp only [Option.getD_some] at h2
    rw [h2]; simp [List.getD_eq_getElem?_getD, hi]
  simp only [List.getElem?_map, e1, e2]
  simp [mul_comm]

/-- the two halves of the U row are the decoded physical states at `i` and `i+1` -/
theorem stateCols_take (X : Vec) (idx : Nat → Nat → Nat) (nom : Nat → Rat) (k n i : Nat) (hi : i < n - 1) :
    (stateCols X idx nom k n i).take k = decode X idx nom k i := by
  unfold stateCols decode
  rw [← List.map_take]
  have : (List.range (2 * k)).take k = List.range k := by
    rw [List.take_range]; congr 1; omega
  rw [this]
  apply List.map_congr_left
  intro j hj
  exact reshape_explicit X idx nom k n i j (List.mem_range.mp hj) hi

theorem stateCols_drop (X : Vec) (idx : Nat → Nat → Nat) (nom : Nat → Rat) (k n i : Nat) (hi : i < n - 1) :
    (stateCols X idx nom k n i).drop k = decode X idx nom k (i + 1) := by
  unfold stateCols decode
  rw [← List.map_drop]
  have : (List.range (2 * k)).drop k = (List.range k).map (fun j => k + j) := by
    apply List.ext_getElem
    · simp; omega
    · intro a h1 h2; simp; 
  rw [this, List.map_map]
  apply List.map_congr_left
  intro j hj
  exact reshape_implicit X idx nom k n i j (List.mem_range.mp hj) hi

/-- zipWith helpers for the blend with weights 0 and 1 -/
theorem vadd_scale_zero_right (a b : List Rat) (h : a.length = b.length) :
    vadd (vscale 1 a) (vscale 0 b) = a := by
  unfold vadd vscale
  induction a generalizing b with
  | nil => simp
  | cons x xs ih =>
    cases b with
    | nil => simp at h
    | cons y ys =>
      simp at h
      have := ih ys h
      simp at this
      simp [this]

theorem vadd_scale_zero_left (a b : List Rat) (h : a.length = b.length) :
    vadd (vscale 0 a) (vscale 1 b) = b := by
  unfold vadd vscale
  induction a generalizing b with
  | nil => cases b with | nil => simp | cons y ys => simp at h
  | cons x xs ih =>
    cases b with
    | nil => simp at h
    | cons y ys =>
      simp at h
      have := ih ys h
      simp at this
      simp [this]

/-- C01 core: the rows the code assembles from the flat decision vector are the theta-method
residuals of the decoded physical trajectory, for every residual function `F`. -/
theorem collocRows_eq_theta (F : Residual) (ne : Nat) (hF : ∀ a b c d e, (F a b c d e).length = ne)
    (theta t0 : Rat) (p : List Rat) (X : Vec) (idx : Nat → Nat → Nat) (nom : Nat → Rat)
    (k n : Nat) (ci : Nat → List Rat) (ts : Nat → Rat) (i : Nat) (hi : i < n - 1) :
    collocRowsCode F theta t0 p X idx nom k n ci ts i
      = thetaSpec F theta t0 p (fun i => decode X idx nom k i) ci ts i := by
  unfold collocRowsCode thetaSpec collocBlock
  simp only [stateCols_take X idx nom k n i hi, stateCols_drop X idx nom k n i hi]
  by_cases h0 : theta = 0
  · subst h0
    simp only [if_true, sub_zero]
    rw [vadd_scale_zero_right _ _ (by rw [hF, hF])]
  · by_cases h1 : theta = 1
    · subst h1
      simp only [h0, if_false, if_true, sub_self]
      rw [vadd_scale_zero_left _ _ (by rw [hF, hF])]
    · simp only [h0, h1, if_false]

#print axioms collocRows_eq_theta
end Rtc
