import Lean.Data.Json
open Lean

def parseRat (s : String) : Option Rat :=
  match s.splitOn "/" with
  | [n] => n.toInt?.map (fun i => (i : Rat))
  | [n, d] => do
      let ni ← n.toInt?
      let di ← d.toNat?
      if di == 0 then none else some ((ni : Rat) / (di : Rat))
  | _ => none

def showRat (q : Rat) : String := s!"{q.num}/{q.den}"

def interpLin : List (Rat × Rat) → Rat → Rat → Rat → Rat
  | [], fl, _, _ => fl
  | [(t0, f0)], fl, fr, t => if t < t0 then fl else if t0 < t then fr else f0
  | (t0, f0) :: (t1, f1) :: rest, fl, fr, t =>
      if t < t0 then fl
      else if t < t1 then f0 + (f1 - f0) / (t1 - t0) * (t - t0)
      else interpLin ((t1, f1) :: rest) f1 fr t

def handle (line : String) : String :=
  match Json.parse line with
  | .error e => s!"bad-json {e}"
  | .ok j =>
    let getArr (k : String) : Option (List Rat) := do
      let a ← (j.getObjValAs? (Array String) k).toOption
      a.toList.mapM parseRat
    match getArr "ts", getArr "fs", getArr "q" with
    | some ts, some fs, some qs =>
        let ks := ts.zip fs
        let out := qs.map (fun q => showRat (interpLin ks 0 0 q))
        Json.compress (Json.arr (out.map Json.str).toArray)
    | _, _, _ => "bad-op"

partial def loop (h : IO.FS.Stream) : IO Unit := do
  let line ← h.getLine
  if line.isEmpty then return ()
  IO.println (handle line.trimAscii.toString)
  loop h

def main : IO Unit := do loop (← IO.getStdin)
