import Mathlib.Order.Lattice
import Mathlib.Order.WithBot
import Mathlib.Algebra.Order.Field.Rat
import Mathlib.Tactic.Linarith
import Mathlib.Tactic.NormNum

/-! Prototype: `_GoalConstraint.update_bounds` over any linear order (covers ±inf via WithBot/WithTop,
    and element-wise time series via the pointwise order). -/
namespace Rtc
variable {α : Type} [LinearOrder α]

structure Ivl (α : Type) where
  lo : α
  hi : α

/-- the code on the current tree -/
def updateBoundsLegacy (self other : Ivl α) (enforceSelf : Bool) : Ivl α :=
  let min0 := max self.lo other.lo
  let max0 := min self.hi other.hi
  let (min1, max1) :=
    if enforceSelf then
      let m := min max0 other.lo
      (m, max m other.hi)
    else
      (min min0 other.hi, max max0 other.lo)
  ⟨min min1 max1, max1⟩

/-- the repaired code: clamp with the bounds that must be preserved -/
def updateBounds (self other : Ivl α) (enforceSelf : Bool) : Ivl α :=
  let min0 := max self.lo other.lo
  let max0 := min self.hi other.hi
  let (min1, max1) :=
    if enforceSelf then (min min0 self.hi, max max0 self.lo)
    else (min min0 other.hi, max max0 other.lo)
  ⟨min min1 max1, max1⟩

def Ivl.sub (a b : Ivl α) : Prop := b.lo ≤ a.lo ∧ a.hi ≤ b.hi
def Ivl.mem (x : α) (a : Ivl α) : Prop := a.lo ≤ x ∧ x ≤ a.hi

/-- `enforce = other`: the result never leaves the previous (other) interval -/
theorem update_other_sub (s o : Ivl α) (ho : o.lo ≤ o.hi) : (updateBounds s o false).sub o := by
  simp only [updateBounds, Ivl.sub, Bool.false_eq_true, if_false]
  constructor
  · refine le_min (le_min (le_max_right _ _) ho) (le_max_right _ _)
  · exact max_le (min_le_right _ _) ho

/-- `enforce = self` (repaired): the result never leaves the stored (self) interval -/
theorem update_self_sub (s o : Ivl α) (hs : s.lo ≤ s.hi) : (updateBounds s o true).sub s := by
  simp only [updateBounds, Ivl.sub, if_true]
  constructor
  · refine le_min (le_min (le_max_left _ _) hs) (le_max_right _ _)
  · exact max_le (min_le_left _ _) hs

/-- when the two intervals share a point the result is exactly the intersection -/
theorem update_eq_inter (s o : Ivl α) (e : Bool) (x : α) (hs : Ivl.mem x s) (ho : Ivl.mem x o) :
    updateBounds s o e = ⟨max s.lo o.lo, min s.hi o.hi⟩ := by
  obtain ⟨hs1, hs2⟩ := hs; obtain ⟨ho1, ho2⟩ := ho
  have h1 : max s.lo o.lo ≤ x := max_le hs1 ho1
  have h2 : x ≤ min s.hi o.hi := le_min hs2 ho2
  have h12 := le_trans h1 h2
  cases e <;> simp only [updateBounds, Bool.false_eq_true, if_false, if_true]
  · have a : min (max s.lo o.lo) o.hi = max s.lo o.lo := min_eq_left (le_trans h12 (min_le_right _ _))
    have b : max (min s.hi o.hi) o.lo = min s.hi o.hi := max_eq_left (le_trans (le_max_right _ _) h12)
    rw [a, b, min_eq_left h12]
  · have a : min (max s.lo o.lo) s.hi = max s.lo o.lo := min_eq_left (le_trans h12 (min_le_left _ _))
    have b : max (min s.hi o.hi) s.lo = min s.hi o.hi := max_eq_left (le_trans (le_max_left _ _) h12)
    rw [a, b, min_eq_left h12]

/-- the legacy `enforce = self` branch loses the stored lower bound: [2,5] merged with [0,10] -/
theorem legacy_self_loosens :
    ¬ (updateBoundsLegacy (⟨2, 5⟩ : Ivl ℚ) ⟨0, 10⟩ true).sub ⟨2, 5⟩ := by
  simp only [updateBoundsLegacy, Ivl.sub, if_true]
  norm_num

#print axioms update_other_sub
#print axioms update_self_sub
#print axioms update_eq_inter
#print axioms legacy_self_loosens
end Rtc
