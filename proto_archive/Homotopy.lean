/-! Prototype model of `HomotopyMixin.optimize` (repaired and legacy loop bodies). Import-free. -/
namespace Rtc.Homotopy

structure Opts where
  thetaStart : Rat
  delta0 : Rat
  deltaMin : Rat

structure St where
  theta : Rat
  delta : Rat
  acc : Option Rat        -- theta of the last accepted solve
  solves : List (Rat × Bool)   -- log, newest first
deriving Repr

inductive Status | running | finished (success : Bool)
deriving Repr, DecidableEq

def init (o : Opts) : St := { theta := o.thetaStart, delta := o.delta0, acc := none, solves := [] }

/-- `theta += delta`, clamped so that the next solve is never beyond 1 (repaired) -/
def advance (s : St) : St :=
  if s.theta + s.delta ≥ 1 then { s with delta := 1 - s.theta, theta := 1 }
  else { s with theta := s.theta + s.delta }

/-- legacy: no clamp -/
def advanceLegacy (s : St) : St := { s with theta := s.theta + s.delta }

/-- one pass through the loop body, given the outcome of the solve at `s.theta` -/
def step (o : Opts) (s : St) (ok : Bool) : St × Status :=
  let s := { s with solves := (s.theta, ok) :: s.solves }
  if ok then
    let s := { s with acc := some s.theta }
    if s.theta ≥ 1 then (s, .finished true) else (advance s, .running)
  else
    if s.theta = o.thetaStart then (s, .finished false)
    else
      let s := { s with theta := s.theta - s.delta, delta := s.delta / 2 }
      if s.delta < o.deltaMin then (s, .finished false) else (advance s, .running)

/-- legacy loop body: the `while theta <= 1` guard is evaluated after the increment -/
def stepLegacy (o : Opts) (s : St) (ok : Bool) : St × Status :=
  let s := { s with solves := (s.theta, ok) :: s.solves }
  if ok then
    let s := advanceLegacy { s with acc := some s.theta }
    if s.theta ≤ 1 then (s, .running) else (s, .finished true)
  else
    if s.theta = o.thetaStart then (s, .finished false)
    else
      let s := { s with theta := s.theta - s.delta, delta := s.delta / 2 }
      if s.delta < o.deltaMin then (s, .finished false)
      else
        let s := advanceLegacy s
        if s.theta ≤ 1 then (s, .running) else (s, .finished false)

/-- run on a finite list of outcomes; `none` = outcomes exhausted while still running -/
def run (stp : Opts → St → Bool → St × Status) (o : Opts) : St → List Bool → St × Option Bool
  | s, [] => (s, none)
  | s, ok :: rest =>
      match stp o s ok with
      | (s', .finished b) => (s', some b)
      | (s', .running) => run stp o s' rest

end Rtc.Homotopy
