import Homotopy
import Mathlib.Tactic.Linarith
import Mathlib.Tactic.NormNum
import Mathlib.Algebra.Order.Field.Rat
namespace Rtc.Homotopy

/-- legacy overshoot (finding F3): theta_start = 1/2, delta0 = 1: success after a single solve at 1/2 -/
theorem legacy_overshoot_witness :
    let r := run stepLegacy ⟨1/2, 1, 1/100⟩ (init ⟨1/2, 1, 1/100⟩) [true]
    r.2 = some true ∧ r.1.acc = some (1/2) := by
  simp only [run, stepLegacy, init, advanceLegacy]
  norm_num

def mu (o : Opts) : Rat := min o.delta0 o.deltaMin

/-- invariant of the repaired loop -/
structure Inv (o : Opts) (s : St) : Prop where
  lo : o.thetaStart ≤ s.theta
  hi : s.theta ≤ 1
  dpos : 0 < s.delta
  rel : ∀ a, s.acc = some a → (s.theta = a + s.delta ∧ o.thetaStart ≤ a)
  first : s.acc = none → s.theta = o.thetaStart
  dmin : s.theta < 1 → mu o ≤ s.delta

theorem inv_init (o : Opts) (h1 : o.thetaStart ≤ 1) (hd : 0 < o.delta0) : Inv o (init o) :=
  ⟨le_refl _, h1, hd, by intro a h; simp [init] at h, by intro _; rfl,
   by intro _; exact min_le_left _ _⟩

/-- success can only be reported for a solve at theta = 1 -/
theorem step_success_theta_one (o : Opts) (s s' : St) (ok : Bool) (hinv : Inv o s)
    (h : step o s ok = (s', .finished true)) : s'.acc = some 1 ∧ ok = true := by
  unfold step at h
  cases ok with
  | false =>
    simp only [Bool.false_eq_true, if_false] at h
    split at h
    · simp at h
    · split at h <;> simp at h
  | true =>
    simp only [if_true] at h
    split at h
    · rename_i hge
      simp only [Prod.mk.injEq] at h
      obtain ⟨hs, _⟩ := h
      subst hs
      have : s.theta = 1 := le_antisymm hinv.hi hge
      simp [this]
    · simp at h

def pot (s : St) : Rat := (1 - s.theta) + 2 * s.delta

theorem pot_nonneg (o : Opts) (s : St) (h : Inv o s) : 0 ≤ pot s := by
  unfold pot; have := h.hi; have := h.dpos; linarith

/-- `advance` from `theta < 1`, `delta > 0` -/
theorem advance_props (s : St) (hlt : s.theta < 1) (hd : 0 < s.delta) :
    (advance s).theta ≤ 1 ∧ 0 < (advance s).delta ∧ (advance s).acc = s.acc ∧
    (advance s).theta = s.theta + (advance s).delta ∧ (advance s).delta ≤ s.delta ∧
    ((advance s).theta < 1 → (advance s).delta = s.delta) := by
  unfold advance
  split
  · rename_i h
    refine ⟨by simp, by simp; linarith, by simp, by simp, by simp; linarith, ?_⟩
    intro h'; simp at h'
  · rename_i h
    simp only [ge_iff_le, not_le] at h
    refine ⟨by simp; linarith, by simpa using hd, by simp, by simp, by simp, ?_⟩
    intro _; simp

theorem mu_le_min (o : Opts) : mu o ≤ o.deltaMin := min_le_right _ _

/-- every pass that keeps the loop running preserves the invariant and lowers the potential by
    at least `mu = min delta0 deltaMin` -/
theorem step_running (o : Opts) (s s' : St) (ok : Bool) (hinv : Inv o s)
    (h : step o s ok = (s', .running)) : Inv o s' ∧ pot s' ≤ pot s - mu o := by
  unfold step at h
  cases ok with
  | true =>
    simp only [if_true] at h
    split at h
    · simp at h
    · rename_i hnot
      simp only [Prod.mk.injEq, and_true] at h
      have hlt : s.theta < 1 := lt_of_not_ge hnot
      have hmu := hinv.dmin hlt
      obtain ⟨a1, a2, a3, a4, a5, a6⟩ := advance_props
        { s with solves := (s.theta, true) :: s.solves, acc := some s.theta } hlt hinv.dpos
      rw [h] at a1 a2 a3 a4 a5 a6
      simp only at a3 a4 a5 a6
      refine ⟨⟨?_, a1, a2, ?_, ?_, ?_⟩, ?_⟩
      · have := hinv.lo; linarith
      · intro a ha; rw [a3] at ha; simp only [Option.some.injEq] at ha; subst ha
        exact ⟨a4, hinv.lo⟩
      · intro hn; rw [a3] at hn; simp at hn
      · intro hl; rw [a6 hl]; exact hmu
      · unfold pot
        by_cases hl : s'.theta < 1
        · rw [a6 hl] at a4 ⊢; linarith
        · -- clamped: theta' = 1, delta' = 1 - theta ≤ delta
          have h1 : s'.theta = 1 := le_antisymm a1 (not_lt.mp hl)
          have : s'.delta = 1 - s.theta := by linarith
          rw [h1, this]; linarith
  | false =>
    simp only [Bool.false_eq_true, if_false] at h
    split at h
    · simp at h
    · rename_i hne
      split at h
      · simp at h
      · rename_i hge
        simp only [Prod.mk.injEq, and_true] at h
        simp only [not_lt] at hge
        -- there was an accepted solve before (otherwise theta = thetaStart)
        have hacc : ∃ a, s.acc = some a := by
          cases hs : s.acc with
          | none => exact absurd (hinv.first hs) hne
          | some a => exact ⟨a, rfl⟩
        obtain ⟨a, ha⟩ := hacc
        obtain ⟨hrel, hale⟩ := hinv.rel a ha
        have hd2 : 0 < s.delta / 2 := by have := hinv.dpos; linarith
        have hlt : s.theta - s.delta < 1 := by have := hinv.hi; have := hinv.dpos; linarith
        obtain ⟨a1, a2, a3, a4, a5, a6⟩ := advance_props
          { s with solves := (s.theta, false) :: s.solves, theta := s.theta - s.delta, delta := s.delta / 2 }
          hlt hd2
        rw [h] at a1 a2 a3 a4 a5 a6
        simp only at a3 a4 a5 a6
        have hmu : mu o ≤ s.delta / 2 := le_trans (mu_le_min o) hge
        refine ⟨⟨?_, a1, a2, ?_, ?_, ?_⟩, ?_⟩
        · linarith
        · intro b hb; rw [a3, ha] at hb; simp only [Option.some.injEq] at hb; subst hb
          exact ⟨by linarith, hale⟩
        · intro hn; rw [a3, ha] at hn; simp at hn
        · intro hl; rw [a6 hl]; exact hmu
        · unfold pot
          by_cases hl : s'.theta < 1
          · rw [a6 hl] at a4 ⊢; linarith
          · have h1 : s'.theta = 1 := le_antisymm a1 (not_lt.mp hl)
            have : s'.delta = 1 - (s.theta - s.delta) := by linarith
            have := hinv.hi
            linarith

/-- C18: a run that reports success made its last accepted solve at theta = 1 -/
theorem run_success_theta_one (o : Opts) : ∀ (l : List Bool) (s s' : St), Inv o s →
    run step o s l = (s', some true) → s'.acc = some 1
  | [], s, s', _, h => by simp [run] at h
  | ok :: rest, s, s', hinv, h => by
    unfold run at h
    split at h
    · rename_i s1 b heq
      simp only [Prod.mk.injEq, Option.some.injEq] at h
      obtain ⟨hs, hb⟩ := h
      subst hs; subst hb
      exact (step_success_theta_one o s s1 ok hinv heq).1
    · rename_i s1 heq
      exact run_success_theta_one o rest s1 s' (step_running o s s1 ok hinv heq).1 h

/-- C18 termination: any outcome list longer than `pot / mu` is enough to finish the loop,
    whatever the outcomes are -/
theorem run_terminates (o : Opts) (hmu : 0 < mu o) : ∀ (l : List Bool) (s : St), Inv o s →
    pot s < (l.length : Rat) * mu o → (run step o s l).2 ≠ none
  | [], s, hinv, hp => by
    have := pot_nonneg o s hinv
    simp at hp; linarith
  | ok :: rest, s, hinv, hp => by
    unfold run
    split
    · simp
    · rename_i s1 heq
      obtain ⟨hinv1, hpot⟩ := step_running o s s1 ok hinv heq
      apply run_terminates o hmu rest s1 hinv1
      have : ((ok :: rest).length : Rat) = (rest.length : Rat) + 1 := by simp
      rw [this] at hp
      linarith

#print axioms legacy_overshoot_witness
#print axioms run_success_theta_one
#print axioms run_terminates
end Rtc.Homotopy
