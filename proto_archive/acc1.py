import numpy as np, casadi as ca
from synth import Synth
from rtctools.optimization.timeseries import Timeseries
from rtctools._internal.alias_tools import AliasDict
pr = Synth(times=[0,1,2], pvals=[[0.5,0.0]], cvals=[[1,1,1]], nom={"x":10.0,"u":4.0})
d,lbx,ubx,lbg,ubg,x0,nlp = pr.transcribe()
X = nlp["x"]; n=X.size1(); v=np.arange(1,n+1,dtype=float)
pr._OptimizationProblem__solver_output = v
res = pr.extract_results()
print("results x", res["x"], "u", res["u"])
def ev(e): return float(ca.Function("f",[X],[e])(v))
for var in ("x","u"):
    print(var, "state_at(-1)=", ev(pr.state_at(var,-1.0)), "scaled:", ev(pr.state_at(var,-1.0,scaled=True)),
          "| state_at(0)=", ev(pr.state_at(var,0.0)), "state_at(0.5)=", ev(pr.state_at(var,0.5)), "state_at(5)=", ev(pr.state_at(var,5.0)))
print("der_at x 0:", ev(pr.der_at("x",0.0)), " der_at x 1:", ev(pr.der_at("x",1.0)), " der_at u 1.5:", ev(pr.der_at("u",1.5)))
print("integral x:", ev(pr.integral("x")), "integral x 0.5..1.5:", ev(pr.integral("x",0.5,1.5)))
print("states_in x 0.5..2:", np.array(ca.Function("f",[X],[pr.states_in("x",0.5,2.0)])(v)).ravel())
