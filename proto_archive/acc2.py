import numpy as np, logging, casadi as ca
from rtctools.optimization.collocated_integrated_optimization_problem import CollocatedIntegratedOptimizationProblem
from rtctools.optimization.modelica_mixin import ModelicaMixin
from rtctools.optimization.timeseries import Timeseries
from rtctools._internal.alias_tools import AliasDict
logging.getLogger("rtctools").setLevel(logging.ERROR)
class P(ModelicaMixin, CollocatedIntegratedOptimizationProblem):
    def compiler_options(self):
        o = super().compiler_options(); o["cache"]=False; return o
    def times(self, variable=None): return np.array([0.0,1.0,2.0])
    def constant_inputs(self, m):
        return AliasDict(self.alias_relation, {"u": Timeseries(self.times(), np.array([0.5,0.5,0.5]))})
    def history(self, m):
        if not hasattr(self, "_h"):
            self._h = AliasDict(self.alias_relation); self._h["x"] = Timeseries(np.array([-2.0,-1.0,0.0]), np.array([3.0,2.0,1.0]))
        return self._h
p = P(model_folder="/tmp/exp/mo", model_name="M", input_folder="/tmp/exp", output_folder="/tmp/exp")
d,lbx,ubx,lbg,ubg,x0,nlp = p.transcribe()
X = nlp["x"]; v = np.arange(1, X.size1()+1, dtype=float)
def ev(e): return np.array(ca.Function("f",[X],[e])(v)).ravel()
print("hist x before", p.history(0)["x"].values)
print("states_in y -2..1:", ev(p.states_in("y", -2.0, 1.0)))
print("hist x after 1 call", p.history(0)["x"].values)
print("states_in y -2..1 again:", ev(p.states_in("y", -2.0, 1.0)))
print("hist x after 2 calls", p.history(0)["x"].values)
print("states_in x -2..1:", ev(p.states_in("x", -2.0, 1.0)))
