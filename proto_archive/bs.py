import numpy as np, casadi as ca
from scipy.interpolate import splev, bisplev
from rtctools.data.interpolation.bspline1d import BSpline1D
from rtctools.data.interpolation.bspline2d import BSpline2D
rng=np.random.default_rng(3)
worst=0; bad=[]
for trial in range(60):
    k=int(rng.integers(1,5)); ni=int(rng.integers(0,6))
    interior=np.sort(rng.choice(np.arange(1,20), size=ni, replace=rng.random()<0.3)).astype(float)/2
    a,b=0.0,10.5
    t=np.concatenate([np.full(k+1,a), interior, np.full(k+1,b)])
    c=rng.normal(size=len(t)-k-1); cpad=np.concatenate([c, np.zeros(k+1)])
    x=ca.SX.sym("x"); f=ca.Function("f",[x],[BSpline1D(t,c,k)(x)])
    pts=np.unique(np.concatenate([np.linspace(a,b,41), interior, [a, b, b-1e-9, a+1e-9]]))
    for q in pts:
        got=float(f(q)); exp=float(splev(q,(t,cpad,k)))
        if abs(got-exp)>1e-9*(1+abs(exp)):
            bad.append((trial,k,list(interior),q,got,exp))
print("1D mismatches", len(bad)); 
for b_ in bad[:8]: print(b_)
