import numpy as np, casadi as ca, itertools, warnings
warnings.filterwarnings("ignore")
from synth import Synth
rng = np.random.default_rng(0)
def layout(pr, X, names, E):
    out={}
    N=X.size1()
    for m in range(E):
        for v in names:
            f=ca.Function("f",[X],[pr.state_vector(v, m)]); out[(m,v)] = np.array(f(np.arange(N))).ravel().astype(int)
    return out
bad=0
for trial in range(60):
    n = rng.integers(2,6); t0 = rng.choice([0.0, 3.0, -2.5]); ts = t0 + np.concatenate([[0],np.cumsum(rng.choice([0.25,0.5,1.0,2.0,0.3], size=n-1))])
    E = rng.integers(1,4); theta = rng.choice([0.0,0.25,0.5,0.75,1.0,0.3])
    pv = [[rng.choice([2.0,3.0,0.5,-1.5]), rng.choice([2.0,4.0,0.25])] for _ in range(E)]
    # avoid known finding F1: member0 value 0/1 pattern
    cv = [list(rng.choice([0.5,1.0,2.0,-1.0], size=n)) for _ in range(E)]
    nom = {"x": rng.choice([1.0,10.0,0.01]), "y": rng.choice([1.0,5.0]), "u": rng.choice([1.0,100.0])}
    class S(Synth):
        def variable_nominal(self, v):
            return self._nom[v] if v in self._nom else super(Synth, self).variable_nominal(v)
    pr = S(times=ts, pvals=pv, cvals=cv, theta=theta, nom=nom)
    d,lbx,ubx,lbg,ubg,x0,nlp = pr.transcribe()
    X=nlp["x"]; N=X.size1(); g=ca.Function("g",[X],[nlp["g"]])
    L = layout(pr, X, ["x","y","u","initial_der(x)"], E)
    Xv = rng.normal(size=N)
    gv = np.array(g(Xv)).ravel(); lb=np.array(ca.veccat(*lbg)).ravel(); ub=np.array(ca.veccat(*ubg)).ravel()
    assert np.all(lb==0) and np.all(ub==0)
    # spec
    rows=[]
    for m in range(E):
        x = Xv[L[(m,"x")]]*nom["x"]; y=Xv[L[(m,"y")]]*nom["y"]; u=Xv[L[(m,"u")]]*nom["u"]
        dnom = pr.variable_nominal("initial_der(x)")
        dx0 = Xv[L[(m,"initial_der(x)")]][0]*dnom
        p,q = pv[m]; c=np.array(cv[m])
        F = lambda x_,dx_,y_,u_,c_: [dx_ + p*x_ - u_ - c_, y_ - x_ - q]
        rows += F(x[0],dx0,y[0],u[0],c[0]) + [0.0]
        for i in range(n-1):
            dx=(x[i+1]-x[i])/(ts[i+1]-ts[i])
            F0=F(x[i],dx,y[i],u[i],c[i]); F1=F(x[i+1],dx,y[i+1],u[i+1],c[i+1])
            rows += [(1-theta)*a+theta*b for a,b in zip(F0,F1)]
    if len(rows)!=len(gv) or not np.allclose(sorted(rows), sorted(gv), rtol=1e-9, atol=1e-9):
        bad+=1; print("MISMATCH", trial, dict(n=n,t0=t0,E=E,theta=theta,pv=pv), len(rows), len(gv))
print("done, mismatches:", bad)
