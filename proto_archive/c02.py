import numpy as np, casadi as ca, warnings, logging, os, sys
warnings.filterwarnings("ignore"); logging.getLogger("rtctools").setLevel(logging.CRITICAL)
from gp1 import SeedFix
from synth import Synth
from rtctools.optimization.goal_programming_mixin import GoalProgrammingMixin, Goal, StateGoal
from rtctools.optimization.timeseries import Timeseries
rng = np.random.default_rng(int(sys.argv[1]) if len(sys.argv)>1 else 5)
class P(SeedFix, GoalProgrammingMixin, Synth):
    def __init__(self, goals, opts, **kw): self._g=goals; self._o=opts; self.snap=[]; super().__init__(**kw)
    def variable_nominal(self, v):
        return self._nom[v] if v in self._nom else super(Synth, self).variable_nominal(v)
    def bounds(self):
        b = super().bounds(); b["x"]=(-50.0,50.0); b["y"]=(-100.0,100.0); b["u"]=(-20.0,20.0); return b
    def path_goals(self): return self._g
    def goal_programming_options(self):
        o = super().goal_programming_options(); o.update(self._o); return o
    def priority_completed(self, p):
        r = self.extract_results(); self.snap.append((p, {k: np.array(v).copy() for k,v in r.items()}))
    def solver_options(self):
        o = super().solver_options(); o["ipopt"]["print_level"]=0; o["print_time"]=False; o["ipopt"]["tol"]=1e-10; return o
def mkgoal(kind, var, prio, n, ts):
    class G(Goal):
        def function(self, pr, m): return pr.state(var)
    g=G(); g.priority=prio; g.var=var
    rngs = {"x":(-50.0,50.0),"y":(-100.0,100.0),"u":(-20.0,20.0)}[var]
    if kind=="min":
        g.order=int(rng.choice([1,2])); g.weight=float(rng.choice([1.0,2.5])); g.function_nominal=float(rng.choice([1.0,10.0]))
    else:
        g.function_range=rngs; g.order=int(rng.choice([1,2])); g.function_nominal=float(rng.choice([1.0,10.0]))
        lo = float(rng.integers(-10,5)); hi = lo+float(rng.integers(0,10))
        if kind in ("tmin","both"):
            g.target_min = lo if rng.random()<0.6 else Timeseries(ts, np.where(rng.random(n)<0.3, np.nan, lo+rng.integers(0,2,size=n)))
        if kind in ("tmax","both"):
            g.target_max = hi if rng.random()<0.6 else Timeseries(ts, np.where(rng.random(n)<0.3, np.nan, hi+rng.integers(0,2,size=n)))
    return g
bad=0; ran=0
for trial in range(25):
    n=int(rng.integers(2,5)); ts=np.concatenate([[0],np.cumsum(rng.choice([0.5,1.0,2.0], size=n-1))])
    goals=[]
    for prio in range(1, int(rng.integers(2,5))):
        for _ in range(int(rng.integers(1,3))):
            goals.append(mkgoal(rng.choice(["min","tmin","tmax","both"]), rng.choice(["x","y","u"]), prio, n, ts))
    nom={"x": float(rng.choice([1.0,10.0])), "y":1.0, "u": float(rng.choice([1.0,5.0]))}
    opts={}
    try:
        pr=P(goals, opts, times=ts, pvals=[[0.5,1.0]], cvals=[list(rng.choice([0.5,1.0,-1.0],size=n))], nom=nom)
        fd=os.dup(1); dn=os.open(os.devnull, os.O_WRONLY); os.dup2(dn,1)
        try: ok=pr.optimize()
        finally: os.dup2(fd,1); os.close(dn); os.close(fd)
    except Exception as e:
        print(trial, "EXC", type(e).__name__, str(e)[-200:]); print("   goals:", [(g.priority,g.var,g.order,g.function_nominal,g.target_min,g.target_max) for g in goals], "nom", nom, "completed", [p for p,_ in pr.snap]); continue
    ran+=1
    if not ok: print(trial, "solve failed"); continue
    prios=[p for p,_ in pr.snap]
    if not prios: print(trial,'no snaps', ok, [ (g.priority, g.is_empty) for g in goals]); continue
    # attainment of each goal at each snapshot
    def att(g, r):
        f=r[g.var]
        if not g.has_target_bounds: return f  # per-step function value
        m,M = g.function_range
        tm = g.target_min.values if isinstance(g.target_min, Timeseries) else np.full(n, g.target_min)
        tM = g.target_max.values if isinstance(g.target_max, Timeseries) else np.full(n, g.target_max)
        v=np.zeros(n)
        with np.errstate(invalid="ignore"):
            a=np.where(np.isfinite(tm), np.maximum(0,(tm-f)/(tm-m)), 0); b=np.where(np.isfinite(tM), np.maximum(0,(f-tM)/(M-tM)),0)
        return np.maximum(a,b)
    for g in goals:
        if g.is_empty: continue
        k = prios.index(g.priority); base = att(g, pr.snap[k][1])
        for (p,r) in pr.snap[k+1:]:
            cur=att(g,r)
            if np.any(cur > base + 1e-5*(1+np.abs(base))):
                bad+=1; print("DEGRADED", trial, "goal prio", g.priority, g.var, "kind", "target" if g.has_target_bounds else "min", "at prio", p, np.round(base,5), np.round(cur,5)); break
print("ran", ran, "violations", bad)
