import numpy as np, casadi as ca, warnings, logging, os, sys
warnings.filterwarnings("ignore"); logging.getLogger("rtctools").setLevel(logging.CRITICAL)
from gp1 import SeedFix
from synth import Synth
from rtctools.optimization.goal_programming_mixin import GoalProgrammingMixin, Goal
from rtctools.optimization.timeseries import Timeseries
rng=np.random.default_rng(int(sys.argv[1]) if len(sys.argv)>1 else 21)
rngs={"x":(-50.0,50.0),"y":(-100.0,100.0),"u":(-20.0,20.0)}
class StopAfterTranscribe(Exception): pass
class P(SeedFix, GoalProgrammingMixin, Synth):
    def __init__(self, pg, g, opts, probs, **kw): self._pg=pg; self._gg=g; self._o=opts; self._probs=probs; super().__init__(**kw)
    def bounds(self):
        b = super().bounds(); b["x"]=(-50.0,50.0); b["y"]=(-100.0,100.0); b["u"]=(-20.0,20.0); return b
    def path_goals(self): return self._pg
    def goals(self): return self._gg
    def ensemble_member_probability(self, m): return self._probs[m]
    def goal_programming_options(self):
        o = super().goal_programming_options(); o.update(self._o); return o
    def transcribe(self):
        self.tr = super().transcribe(); raise StopAfterTranscribe()
def mkpath(vars_, kind, order, weight, nominal, tmin, tmax):
    size=len(vars_)
    class G(Goal):
        def function(self, pr, m):
            return pr.state(vars_[0]) if size==1 else ca.vertcat(*[pr.state(v) for v in vars_])
    g=G(); g.priority=1; g.order=order; g.weight=weight; g.size=size; g.vars=vars_; g.kind=kind
    g.function_nominal = nominal if size==1 else np.array([nominal]*size)
    if kind!="min":
        g.function_range = rngs[vars_[0]] if size==1 else (np.array([rngs[v][0] for v in vars_]), np.array([rngs[v][1] for v in vars_]))
        g.target_min=tmin; g.target_max=tmax
    return g
bad=0
for trial in range(40):
    n=int(rng.integers(2,5)); ts=np.concatenate([[0],np.cumsum(rng.choice([0.5,1.0,2.0], size=n-1))])
    E=int(rng.integers(1,3)); probs=list(rng.choice([0.25,0.5,1.0,0.4],size=E))
    sbs=bool(rng.random()<0.5)
    pgs=[]
    for _ in range(int(rng.integers(1,4))):
        vec = rng.random()<0.3
        vars_ = list(rng.choice(["x","y","u"], size=2, replace=False)) if vec else [str(rng.choice(["x","y","u"]))]
        kind=str(rng.choice(["min","tmin","tmax","both"])) if not vec else str(rng.choice(["tmin","tmax"]))
        order=int(rng.choice([1,2])); weight=float(rng.choice([1.0,2.5])); nominal=float(rng.choice([1.0,10.0]))
        def tgt(sign):
            base=float(rng.integers(-5,5))
            r=rng.random()
            if r<0.4: return base
            if r<0.8 or vec:
                v=base+rng.integers(0,2,size=n).astype(float); v[rng.random(n)<0.3]=np.nan
                if np.all(np.isnan(v)): v[0]=base
                if vec: v=np.stack([v, v+1.0],axis=1)
                return Timeseries(ts, v)
            return base
        tmin = tgt(-1) if kind in ("tmin","both") else np.nan
        tmax = np.nan
        if kind in ("tmax","both"):
            tmax = tgt(1)
            if kind=="both":
                # ensure tmin<=tmax
                a = tmin.values if isinstance(tmin,Timeseries) else tmin
                tmax = (Timeseries(ts, (tmin.values if isinstance(tmin,Timeseries) else np.full(n,tmin))+3.0) )
        pgs.append(mkpath(vars_, kind, order, weight, nominal, tmin, tmax))
    pr=P(pgs, [], {"scale_by_problem_size":sbs, "keep_soft_constraints":True}, probs, times=ts, pvals=[[0.5,1.0]]*E, cvals=[list(rng.choice([0.5,1.0,-1.0],size=n))]*E)
    try:
        pr.optimize()
    except StopAfterTranscribe: pass
    except Exception as e:
        print("EXC", trial, type(e).__name__, str(e)[:160]); bad+=1; continue
    d,lbx,ubx,lbg,ubg,x0,nlp=pr.tr
    X=nlp["x"]; N=X.size1(); Xv=rng.random(N)
    fv=float(ca.Function("f",[X],[nlp["f"]])(Xv))
    def sv(v,m): return np.array(ca.Function("f",[X],[pr.state_vector(v,m)])(Xv)).ravel()
    gv=np.array(ca.Function("g",[X],[nlp["g"]])(Xv)).ravel(); lb=np.array(ca.veccat(*lbg)).ravel(); ub=np.array(ca.veccat(*ubg)).ravel()
    code_rows=sorted([(round(float(gv[i]),9), float(lb[i]), float(ub[i])) for i in range(len(gv)) if not (lb[i]==0 and ub[i]==0)])
    rows=[]
    for m in range(E):
        for j,g in enumerate(pgs):
            if g.kind=="min": continue
            eps=sv("path_eps_0_%d"%j, m).reshape((g.size,n))
            f=np.stack([sv(v,m) for v in g.vars])  # nominals of x,y,u are 1 here
            nomv=np.broadcast_to(np.atleast_1d(g.function_nominal),(g.size,))
            def arr(t):
                if isinstance(t,Timeseries): a=t.values; return a.T if a.ndim>1 else np.broadcast_to(a,(g.size,n))
                return np.full((g.size,n), t)
            lo=np.broadcast_to(np.atleast_1d(g.function_range[0]),(g.size,)); hi=np.broadcast_to(np.atleast_1d(g.function_range[1]),(g.size,))
            if g.has_target_min:
                tm=arr(g.target_min)
                for c in range(g.size):
                    if isinstance(g.target_min,Timeseries) and not np.any(np.isfinite(tm[c])): continue
                    for i in range(n):
                        v = (f[c,i]-eps[c,i]*(lo[c]-tm[c,i])-tm[c,i])/nomv[c] if np.isfinite(tm[c,i]) else 0.0
                        rows.append((round(float(v),9), 0.0, np.inf))
            if g.has_target_max:
                tM=arr(g.target_max)
                for c in range(g.size):
                    if isinstance(g.target_max,Timeseries) and not np.any(np.isfinite(tM[c])): continue
                    for i in range(n):
                        v = (f[c,i]-eps[c,i]*(hi[c]-tM[c,i])-tM[c,i])/nomv[c] if np.isfinite(tM[c,i]) else 0.0
                        rows.append((round(float(v),9), -np.inf, 0.0))
    rows=sorted(rows)
    ok = len(rows)==len(code_rows) and all(abs(a[0]-b[0])<=1e-7*(1+abs(a[0])) and a[1]==b[1] and a[2]==b[2] for a,b in zip(rows,code_rows))
    # eps bounds
    for m in range(E):
        for j,g in enumerate(pgs):
            if g.kind=="min": continue
            I=np.array(ca.Function("f",[X],[pr.state_vector("path_eps_0_%d"%j,m)])(np.arange(N))).ravel().astype(int)
            if not (np.all(lbx[I]==0.0) and np.all(ubx[I]==1.0)): ok=False; print("eps bounds wrong")
    if not ok:
        bad+=1; print("ROWS MISMATCH",trial,dict(E=E,n=n), len(rows), len(code_rows), [(g.kind,g.vars,type(g.target_min).__name__,type(g.target_max).__name__) for g in pgs]); print("  exp",rows[:6]); print("  got",code_rows[:6])
print("done mismatches",bad)
