import numpy as np, casadi as ca, warnings, logging
warnings.filterwarnings("ignore"); logging.getLogger("rtctools").setLevel(logging.CRITICAL)
from synth import Synth
from rtctools.optimization.timeseries import Timeseries
from rtctools._internal.alias_tools import AliasDict
rng = np.random.default_rng(2)
bad=0
def interp(t, ts, fs, fl, fr):
    return np.interp(t, ts, fs, fl, fr)
for trial in range(80):
    n = rng.integers(2,6); t0 = rng.choice([0.0, 3.0]); ts = t0 + np.concatenate([[0],np.cumsum(rng.choice([0.5,1.0,2.0], size=n-1))])
    E = rng.integers(1,3)
    pv = [[2.0, 3.0] for _ in range(E)]; cv=[[1.0]*n for _ in range(E)]
    nom = {"x": rng.choice([1.0,10.0,0.1]), "y": rng.choice([1.0,4.0]), "u": rng.choice([1.0,100.0])}
    kinds = {}
    def mkbound(v, side):
        k = rng.choice(["none","scalar","inf","ts_same","ts_other","ts_nan"])
        sgn = -1 if side==0 else 1
        if k=="none": return None
        if k=="scalar": return float(sgn*rng.integers(1,20))
        if k=="inf": return sgn*np.inf
        if k=="ts_same": return Timeseries(ts, sgn*(5+rng.random(n)))
        if k=="ts_other":
            tt = np.array([ts[0]-1.0, ts[0]+0.25, ts[-1]-0.1]); tt=np.unique(tt)
            return Timeseries(tt, sgn*(5+rng.random(len(tt))))
        if k=="ts_nan":
            v_=sgn*(5+rng.random(n)); v_[rng.integers(0,n)] = sgn*np.inf; return Timeseries(ts, v_)
    B = {v:(mkbound(v,0), mkbound(v,1)) for v in ("x","y","u")}
    H = []
    for m in range(E):
        h={}
        for v in ("x","y","u"):
            k = rng.choice(["absent","one","several","nan_t0","nan_prev"])
            if k=="one": h[v]=Timeseries(np.array([ts[0]]), np.array([float(rng.integers(-3,3))]))
            if k in ("several","nan_t0","nan_prev"):
                tt=np.array([ts[0]-2.0, ts[0]-0.5, ts[0]]); vv=rng.integers(-3,3,size=3).astype(float)
                if k=="nan_t0": vv[-1]=np.nan
                if k=="nan_prev": vv[-2]=np.nan
                h[v]=Timeseries(tt,vv)
        H.append(h)
    class S(Synth):
        def variable_nominal(self, v):
            return self._nom[v] if v in self._nom else super(Synth, self).variable_nominal(v)
        def bounds(self):
            b=AliasDict(self.alias_relation)
            for v,(lo,hi) in B.items():
                if lo is not None or hi is not None or rng.random()<0.5: b[v]=(lo,hi)
            return b
        def history(self, m):
            a=AliasDict(self.alias_relation)
            for k,v in H[m].items(): a[k]=v
            return a
    pr = S(times=ts, pvals=pv, cvals=cv, theta=1.0, nom=nom)
    try:
        d,lbx,ubx,lbg,ubg,x0,nlp = pr.transcribe()
    except Exception as e:
        print("EXC", trial, type(e).__name__, str(e)[:100], {k:(type(a).__name__,type(b).__name__) for k,(a,b) in B.items()}); bad+=1; continue
    X=nlp["x"]; N=X.size1()
    def idx(v,m): return np.array(ca.Function("f",[X],[pr.state_vector(v,m)])(np.arange(N))).ravel().astype(int)
    exp_l = {}; exp_u={}
    for m in range(E):
        for v in ("x","y","u"):
            I = idx(v,m); lo,hi = B[v]
            def side(b, fill):
                if b is None: return np.full(n, fill)
                if isinstance(b, Timeseries): return interp(ts, b.times, b.values, fill, fill)
                return np.full(n, b)
            L = side(lo,-np.inf)/nom[v]; U = side(hi,np.inf)/nom[v]
            h = H[m].get(v)
            if h is not None:
                val = interp(ts[0], h.times, h.values, np.nan, np.nan) if len(h.times)>1 else (h.values[0] if h.times[0]==ts[0] else np.nan)
                if not np.isnan(val): L[0]=U[0]=val/nom[v]
            for j,i in enumerate(I):
                # shared controls: later member overrides pins; accumulate as list
                exp_l.setdefault(i,[]).append(L[j]); exp_u.setdefault(i,[]).append(U[j])
    ok=True
    for i in exp_l:
        if not any(np.isclose(lbx[i], a, rtol=1e-12, atol=0, equal_nan=True) or lbx[i]==a for a in exp_l[i]): ok=False; print("  lbx", i, lbx[i], exp_l[i])
        if not any(np.isclose(ubx[i], a, rtol=1e-12, atol=0, equal_nan=True) or ubx[i]==a for a in exp_u[i]): ok=False; print("  ubx", i, ubx[i], exp_u[i])
    # init der pins
    for m in range(E):
        I = idx("initial_der(x)", m)[0]; h=H[m].get("x")
        dn = pr.variable_nominal("initial_der(x)")
        if h is not None and len(h.times)>1 and not np.isnan(h.values[-2]) and not np.isnan(h.values[-1]):
            e = (h.values[-1]-h.values[-2])/(h.times[-1]-h.times[-2])/dn
            if not (np.isclose(lbx[I],e) and np.isclose(ubx[I],e)): ok=False; print("  initder", lbx[I], ubx[I], e)
        else:
            if not (lbx[I]==-np.inf and ubx[I]==np.inf): ok=False; print("  initder free expected", lbx[I], ubx[I])
    if not ok: bad+=1; print("MISMATCH", trial)
print("done, mismatches:", bad)
