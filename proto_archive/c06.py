import numpy as np, casadi as ca, warnings
warnings.filterwarnings("ignore")
from synth import Synth
from rtctools.optimization.timeseries import Timeseries
rng = np.random.default_rng(1)
bad=0
for trial in range(40):
    n = rng.integers(2,6); t0 = rng.choice([0.0, 3.0]); ts = t0 + np.concatenate([[0],np.cumsum(rng.choice([0.5,1.0,2.0], size=n-1))])
    E = rng.integers(1,4)
    pv = [[rng.choice([2.0,3.0,0.5]), rng.choice([2.0,4.0])] for _ in range(E)]
    cv = [list(rng.choice([0.5,1.0,2.0], size=n)) for _ in range(E)]
    probs = list(rng.choice([0.2,0.5,1.0,0.3], size=E))
    nom = {"x": rng.choice([1.0,10.0]), "u": rng.choice([1.0,100.0])}
    lbts = [rng.normal(size=n) for _ in range(E)]
    class S(Synth):
        def variable_nominal(self, v):
            return self._nom[v] if v in self._nom else super(Synth, self).variable_nominal(v)
        def ensemble_member_probability(self, m): return probs[m]
        def path_objective(self, m): return self.state("x")**2 + 3*self.state("u") + self.der("x")*self.variable("c") + self.variable("p")
        def objective(self, m): return 7*self.state_at("x", self.times()[-1], m) + self.variable("q") if False else 7*self.state_at("x", self.times()[-1], m)
        def path_constraints(self, m):
            return [(self.state("x")+self.state("u"), Timeseries(self.times(), lbts[m]), 50.0),
                    (ca.vertcat(self.state("y"), 2*self.state("x")), np.array([-1.0,-2.0]), 9.0)]
        def constraints(self, m):
            return [(self.state_at("x", self.times()[0], m) - m, -3.0, 4.0+m),
                    (ca.vertcat(self.state_at("u", self.times()[-1], m), self.state_at("y", self.times()[-1], m)), -1.0, np.array([5.0, 6.0+m]))]
    pr = S(times=ts, pvals=pv, cvals=cv, theta=1.0, nom=nom)
    d,lbx,ubx,lbg,ubg,x0,nlp = pr.transcribe()
    X=nlp["x"]; N=X.size1(); F=ca.Function("g",[X],[nlp["f"], nlp["g"]])
    Xv = rng.normal(size=N); fv, gv = F(Xv); fv=float(fv); gv=np.array(gv).ravel()
    lb=np.array(ca.veccat(*lbg)).ravel(); ub=np.array(ca.veccat(*ubg)).ravel()
    def sv(v,m): return np.array(ca.Function("f",[X],[pr.state_vector(v,m)])(Xv)).ravel()
    fspec=0.0; rows=[]
    for m in range(E):
        x=sv("x",m)*nom["x"]; y=sv("y",m); u=sv("u",m)*nom["u"]; dx0=sv("initial_der(x)",m)[0]*pr.variable_nominal("initial_der(x)")
        p,q=pv[m]; c=np.array(cv[m])
        dx=np.concatenate([[dx0], np.diff(x)/np.diff(ts)])
        fm = 7*x[-1] + sum(x[i]**2+3*u[i]+dx[i]*c[i]+p for i in range(n))
        fspec += probs[m]*fm
        rows.append((x[0]-m, -3.0, 4.0+m)); rows.append((u[-1], -1.0, 5.0)); rows.append((y[-1], -1.0, 6.0+m))
        for i in range(n):
            rows.append((x[i]+u[i], lbts[m][i], 50.0)); rows.append((y[i], -1.0, 9.0)); rows.append((2*x[i], -2.0, 9.0))
    code_rows = [(gv[i], lb[i], ub[i]) for i in range(len(gv)) if not (lb[i]==0 and ub[i]==0)]
    ok = abs(fspec-fv) <= 1e-9*(1+abs(fv)) and len(code_rows)==len(rows) and np.allclose(sorted(code_rows), sorted(rows), rtol=1e-9, atol=1e-9)
    if not ok:
        bad+=1; print("MISMATCH", trial, dict(n=n,E=E,probs=probs), fspec, fv, len(code_rows), len(rows))
print("done, mismatches:", bad)
