import numpy as np, casadi as ca, warnings, logging, itertools
warnings.filterwarnings("ignore"); logging.getLogger("rtctools").setLevel(logging.CRITICAL)
from synth import Synth
from rtctools.optimization.control_tree_mixin import ControlTreeMixin
from rtctools.optimization.planning_mixin import PlanningMixin
rng=np.random.default_rng(7)
bad=0
for trial in range(150):
    n=int(rng.integers(3,8)); ts=np.concatenate([[0],np.cumsum(rng.choice([0.5,1.0,2.0], size=n-1))])
    E=int(rng.integers(1,6)); k=int(rng.integers(1,4))
    nb=int(rng.integers(0,n)); bts=sorted(rng.choice(ts[1:], size=min(nb,n-1), replace=False))
    # forecasts with forced coincidences
    base=[list(rng.choice([0.0,1.0,2.0], size=n)) for _ in range(E)]
    for m in range(1,E):
        if rng.random()<0.5:
            j=int(rng.integers(0,m)); cut=int(rng.integers(0,n+1)); base[m][:cut]=base[j][:cut]
    class S(ControlTreeMixin, Synth):
        def control_tree_options(self):
            o=super().control_tree_options(); o["branching_times"]=list(bts); o["k"]=k; return o
    try:
        pr=S(times=ts, pvals=[[2.0,3.0]]*E, cvals=base)
        d,lbx,ubx,lbg,ubg,x0,nlp=pr.transcribe()
    except Exception as e:
        print("EXC", trial, type(e).__name__, str(e)[:120], dict(n=n,E=E,k=k,bts=bts)); bad+=1; continue
    X=nlp["x"]; N=X.size1()
    idx={m: np.array(ca.Function("f",[X],[pr.state_vector("u",m)])(np.arange(N))).ravel().astype(int) for m in range(E)}
    br=pr.control_tree_branches
    # branch of member at time index i: deepest level d with bt[d] <= t
    bt=[ts[0]]+list(bts)+[np.inf]
    def branch_at(m,i):
        d=max(dd for dd in range(len(bt)-1) if bt[dd]<=ts[i])
        cands=[b for b,mem in br.items() if len(b)==d and m in mem]
        assert len(cands)==1, (m,i,d,cands)
        return cands[0]
    msgs=[]
    try:
        for m1,m2 in itertools.combinations(range(E),2):
            prev_share=True
            for i in range(n):
                share = idx[m1][i]==idx[m2][i]; same = branch_at(m1,i)==branch_at(m2,i)
                if share!=same: msgs.append(("share!=branch",m1,m2,i))
                if share and not prev_share: msgs.append(("remerge",m1,m2,i))
                prev_share=share
                # coincide on all data < next branching time => not separated yet
            # members with identical forecast over whole horizon must share everything
            if base[m1]==base[m2] and not np.array_equal(idx[m1],idx[m2]): msgs.append(("identical separated",m1,m2))
        for b,mem in br.items():
            kids=[c for c in br if len(c)==len(b)+1 and c[:len(b)]==b and br[c]]
            if len(kids)>k: msgs.append(("too many kids",b))
            if kids and sorted(sum((br[c] for c in kids),[]))!=sorted(mem): msgs.append(("not partition",b))
        # distinct members' controls cover distinct indices otherwise; all indices < N
    except AssertionError as e:
        msgs.append(("branch lookup", str(e)))
    if msgs: bad+=1; print("MISMATCH",trial,dict(n=n,E=E,k=k,bts=bts),msgs[:3])
print("done mismatches",bad)
