import numpy as np, casadi as ca, os, itertools, warnings, logging
warnings.filterwarnings("ignore"); logging.getLogger("rtctools").setLevel(logging.CRITICAL)
from gp1 import SeedFix
from gp2 import ScriptedSolver
from synth import Synth
from rtctools.optimization.goal_programming_mixin import GoalProgrammingMixin, Goal
from rtctools.optimization.single_pass_goal_programming_mixin import SinglePassGoalProgrammingMixin
from rtctools.optimization.timeseries import Timeseries
def mk(var, prio, empty=False):
    class G(Goal):
        def function(self, pr, m): return pr.state(var)
    g=G(); g.priority=prio; g.order=1
    if empty:
        g.function_range=(-100.0,100.0); g.target_min=Timeseries(np.array([0.,1.,2.]), np.array([np.nan]*3))
    return g
class Base(SeedFix):
    def __init__(self, script, goals, **kw):
        self._ss=ScriptedSolver(script); self.hooks=[]; self._g=goals; self.posts=0; super().__init__(**kw)
    def bounds(self):
        b = super().bounds(); b["x"]=(0.0,10.0); b["y"]=(-100.0,100.0); return b
    def path_goals(self): return self._g
    def priority_started(self,p): super().priority_started(p); self.hooks.append(("S",p))
    def priority_completed(self, p): self.hooks.append(("C",p)); self.last=self.extract_results()
    def post(self): self.posts+=1; self.at_post=self.extract_results()
    def solver_options(self):
        o = super().solver_options(); o["ipopt"]["print_level"]=0; o["print_time"]=False; o["casadi_solver"]=self._ss; return o
class MP(Base, GoalProgrammingMixin, Synth): pass
class SP(Base, SinglePassGoalProgrammingMixin, Synth): pass
def quiet(f):
    fd=os.dup(1); dn=os.open(os.devnull, os.O_WRONLY); os.dup2(dn,1)
    try: return f()
    finally: os.dup2(fd,1); os.close(dn); os.close(fd)
prios=[3,-5,3,7,2,7]; vars_=["x","y","u","x","y","u"]
bad=0
for cls in (MP,SP):
    for script in itertools.product([True,False], repeat=4):
        goals=[mk(v,p) for v,p in zip(vars_,prios)]+[mk("x",100,empty=True)]
        pr=cls(list(script), goals, times=[0,1,2], pvals=[[0.5,0.0]], cvals=[[1,1,1]])
        ok=quiet(pr.optimize)
        order=sorted({int(p) for p in prios})
        exp=[]; res=True
        for i,p in enumerate(order):
            exp.append(("S",p))
            if script[i]: exp.append(("C",p))
            else: res=False; break
        final=pr.extract_results()
        cond = pr.hooks==exp and ok==res and pr.posts==1
        if any(h[0]=="C" for h in pr.hooks): cond = cond and (final is pr.last) and (pr.at_post is pr.last)
        if not cond: bad+=1; print("MISMATCH", cls.__name__, script, ok, pr.hooks, exp, pr.posts)
print("mismatches",bad)
