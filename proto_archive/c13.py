import numpy as np, random
from pymoca.backends.casadi.alias_relation import AliasRelation
from rtctools._internal.alias_tools import AliasDict
from rtctools.optimization.timeseries import Timeseries
rnd=random.Random(5)
bad=0
for trial in range(300):
    names=[f"v{i}" for i in range(rnd.randint(2,7))]
    ar=AliasRelation()
    # reference: union-find with sign
    for _ in range(rnd.randint(0,6)):
        a,b=rnd.sample(names,2); sa=rnd.choice(["","-"]); sb=rnd.choice(["","-"])
        try: ar.add(sa+a, sb+b)
        except AssertionError: pass
    canon={n: ar.canonical_signed(n) for n in names}
    for signed in (True, False):
        d=AliasDict(ar, signed_values=signed); ref={}
        for op in range(rnd.randint(1,15)):
            k=rnd.choice(names); c,s=canon[k]; s = s if signed else 1
            kind=rnd.choice(["set","get","del","in","setdefault","getdef","len","keys"])
            try:
                if kind=="set":
                    vk=rnd.choice(["scalar","pair","list"])
                    if vk=="scalar": v=float(rnd.randint(-5,5)); d[k]=v; ref[c]=s*v
                    elif vk=="pair": v=(float(rnd.randint(-5,0)), float(rnd.randint(0,5))); d[k]=v; ref[c]= v if s>0 else (-v[1],-v[0])
                    else: v=[float(rnd.randint(-5,5)) for _ in range(3)]; d[k]=v; ref[c]=[s*x for x in v]
                elif kind=="get":
                    if c in ref:
                        g=d[k]; r=ref[c]
                        e = (r if s>0 else ((-r[1],-r[0]) if isinstance(r,tuple) else ([-x for x in r] if isinstance(r,list) else -r)))
                        if g!=e: bad+=1; print("GET MISMATCH",trial,k,canon[k],g,e)
                    else:
                        try: d[k]; bad+=1; print("expected KeyError")
                        except KeyError: pass
                elif kind=="del":
                    if c in ref: del d[k]; del ref[c]
                elif kind=="in":
                    if (k in d)!=(c in ref): bad+=1; print("IN MISMATCH")
                elif kind=="len":
                    if len(d)!=len(ref): bad+=1; print("LEN MISMATCH")
                elif kind=="keys":
                    if sorted(d.keys())!=sorted(ref.keys()): bad+=1; print("KEYS MISMATCH", sorted(d.keys()), sorted(ref.keys()))
                elif kind=="getdef":
                    g=d.get(k, "dflt")
                    if (c in ref) == (g=="dflt"): bad+=1; print("GETDEF MISMATCH")
                elif kind=="setdefault":
                    v=float(rnd.randint(-5,5)); g=d.setdefault(k, v)
                    if c not in ref: ref[c]=s*v
            except Exception as e:
                bad+=1; print("EXC",trial,kind,type(e).__name__,e)
print("mismatches",bad)
