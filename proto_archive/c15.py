import numpy as np, casadi as ca, warnings, logging
warnings.filterwarnings("ignore"); logging.getLogger("rtctools").setLevel(logging.CRITICAL)
from synth import Synth
from rtctools.optimization.timeseries import Timeseries
from rtctools._internal.alias_tools import AliasDict
rng = np.random.default_rng(3)
bad=0
for trial in range(40):
    n = rng.integers(2,6); t0 = rng.choice([0.0, 3.0]); ts = t0 + np.concatenate([[0],np.cumsum(rng.choice([0.5,1.0,2.0], size=n-1))])
    nom = {"x": rng.choice([1.0,10.0]), "y": 1.0, "u": rng.choice([1.0,4.0])}
    hist = rng.random()<0.7
    ht = np.array([ts[0]-2.0, ts[0]-0.5, ts[0]]); hv = rng.integers(-3,4,size=3).astype(float)
    class S(Synth):
        def variable_nominal(self, v):
            return self._nom[v] if v in self._nom else super(Synth, self).variable_nominal(v)
        def history(self, m):
            a=AliasDict(self.alias_relation)
            if hist: a["x"]=Timeseries(ht.copy(), hv.copy())
            return a
    pr = S(times=ts, pvals=[[2.0,3.0]], cvals=[[1.0]*n], theta=1.0, nom=nom)
    d,lbx,ubx,lbg,ubg,x0,nlp = pr.transcribe()
    X=nlp["x"]; N=X.size1(); Xv=rng.normal(size=N)
    pr._OptimizationProblem__solver_output = Xv
    res = pr.extract_results()
    def ev(e):
        if isinstance(e,(float,int)): return float(e)
        return np.array(ca.Function("f",[X],[e])(Xv)).ravel()
    x = res["x"]
    allt = np.concatenate([ht[:-1], ts]) if hist else ts
    allx = np.concatenate([hv[:-1], x]) if hist else x
    msgs=[]
    # state_at
    for q in list(ts) + [ts[0]+0.3*(ts[1]-ts[0]), ts[-1]+1.0] + ([ts[0]-1.0, ts[0]-2.0, ts[0]-3.0] if hist else []):
        got = ev(pr.state_at("x", q))[0] if not isinstance(pr.state_at("x",q),(float,int)) else float(pr.state_at("x",q))
        if q < ts[0]: exp = np.interp(q, ht, hv, hv[0], hv[-1])
        else: exp = np.interp(q, ts, x)
        if not np.isclose(got, exp): msgs.append(("state_at",q,got,exp))
    # der_at
    dnom = pr.variable_nominal("initial_der(x)")
    for q in list(ts[1:]) + [ts[0]+0.3*(ts[1]-ts[0])]:
        got = ev(pr.der_at("x", q))[0]
        i = np.searchsorted(ts, q, side="left"); exp=(x[i]-x[i-1])/(ts[i]-ts[i-1])
        if not np.isclose(got, exp): msgs.append(("der_at",q,got,exp))
    got = ev(pr.der_at("x", ts[0]))[0]; exp = Xv[int(np.array(ca.Function("f",[X],[pr.state_vector("initial_der(x)")])(np.arange(N))).ravel()[0])]*dnom
    if not np.isclose(got,exp): msgs.append(("der_at t0",got,exp))
    # integral
    for (a,b) in [(None,None),(ts[0]+0.25*(ts[1]-ts[0]), ts[-1]), (ts[0], ts[0]+0.5*(ts[1]-ts[0]))] + ([(ts[0]-1.0, ts[-1]), (ts[0]-2.0, ts[0])] if hist else []):
        got = ev(pr.integral("x", a, b))[0]
        a_ = ts[0] if a is None else a; b_= ts[-1] if b is None else b
        kn = sorted(set([a_, b_] + [t for t in allt if a_ <= t <= b_]))
        f = lambda t: np.interp(t, allt, allx)
        exp = sum(0.5*(f(kn[i])+f(kn[i+1]))*(kn[i+1]-kn[i]) for i in range(len(kn)-1))
        if not np.isclose(got, exp): msgs.append(("integral",a,b,got,exp))
    if msgs: bad+=1; print("MISMATCH", trial, "hist", hist, "nom", nom["x"], msgs[:4])
print("done, mismatches:", bad)
