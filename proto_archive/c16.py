import numpy as np, casadi as ca, warnings, logging
warnings.filterwarnings("ignore"); logging.getLogger("rtctools").setLevel(logging.CRITICAL)
from synth import Synth
from rtctools.optimization.timeseries import Timeseries
from rtctools._internal.alias_tools import AliasDict
rng=np.random.default_rng(4)
bad=0
for trial in range(60):
    n=int(rng.integers(2,6)); t0=float(rng.choice([0.0])); ts=t0+np.concatenate([[0],np.cumsum(rng.choice([0.5,1.0,2.0], size=n-1))])
    tau=float(rng.choice([0.0,0.25,0.5,1.0,1.5,3.0,7.0]))
    hk=rng.choice(["none","one","full","partial","nan"])
    ht=np.array([ts[0]-4.0, ts[0]-2.0, ts[0]-0.5, ts[0]]); hx=rng.integers(-3,4,size=4).astype(float); hy=rng.integers(-3,4,size=4).astype(float)
    if hk=="nan": hx[1]=np.nan
    nom={"x": float(rng.choice([1.0,10.0])), "d": float(rng.choice([1.0,3.0])), "y":1.0,"u":1.0}
    class S(Synth):
        def __init__(self, **kw):
            super().__init__(**kw)
        def variable_nominal(self, v):
            return self._nom[v] if v in self._nom else super(Synth, self).variable_nominal(v)
        @property
        def dae_variables(self):
            if not hasattr(self,"_d"): self._d=ca.MX.sym("d"); self._mx["algebraics"]=self._mx["algebraics"]+[self._d]
            return self._mx
        def delayed_feedback(self):
            x=self._mx["states"][0]; y=self._mx["algebraics"][0]
            return [(2*x + y, "d", tau)]
        def history(self, m):
            a=AliasDict(self.alias_relation)
            if hk=="one": a["x"]=Timeseries(ht[-1:].copy(), hx[-1:].copy()); a["y"]=Timeseries(ht[-1:].copy(), hy[-1:].copy())
            if hk in ("full","nan"): a["x"]=Timeseries(ht.copy(), hx.copy()); a["y"]=Timeseries(ht.copy(), hy.copy())
            if hk=="partial": a["x"]=Timeseries(ht.copy(), hx.copy())
            return a
    pr=S(times=ts, pvals=[[2.0,3.0]], cvals=[[1.0]*n], nom=nom)
    try:
        d_,lbx,ubx,lbg,ubg,x0,nlp=pr.transcribe()
    except Exception as e:
        print("EXC",trial,type(e).__name__,str(e)[:150], dict(hk=hk,tau=tau)); bad+=1; continue
    X=nlp["x"]; N=X.size1(); Xv=rng.normal(size=N)
    # pinned entries (history at t0) are bounds only; g is a function of X anyway
    gv=np.array(ca.Function("g",[X],[nlp["g"]])(Xv)).ravel()
    def sv(v): return np.array(ca.Function("f",[X],[pr.state_vector(v,0)])(Xv)).ravel()*nom.get(v,1.0)
    x=sv("x"); y=sv("y"); dd=sv("d")
    expr=2*x+y
    # history of expr
    if hk in ("full",):
        he=2*hx[:-1]+hy[:-1]; out_t=np.concatenate([ht[:-1],ts]); out_v=np.concatenate([he,expr])
        earliest=ts[0]-tau
        complete = earliest>=ht[0]
    else:
        complete=False
    if hk=="nan":
        he=2*hx[:-1]+hy[:-1]; earliest=ts[0]-tau
        i0=np.searchsorted(ht[:-1], earliest); 
        if i0>=len(ht[:-1]) or ht[:-1][min(i0,len(he)-1)]!=earliest: i0-=1
        complete = i0>=0 and not np.any(np.isnan(he[i0:]))
        out_t=np.concatenate([ht[:-1],ts]); out_v=np.concatenate([he,expr])
    if not complete: out_t=ts; out_v=expr
    q=ts-tau
    xd=np.interp(q, out_t, out_v)   # clamps at ends
    # nominal used for row scaling
    nomrow = abs(2*nom["x"]+nom["y"])
    rows=(dd - xd)/nomrow
    tail=gv[-n:]
    if not np.allclose(tail, rows, rtol=1e-9, atol=1e-9):
        bad+=1; print("MISMATCH",trial,dict(hk=hk,tau=tau,n=n,nomx=nom["x"],nomd=nom["d"]), np.round(tail,4), np.round(rows,4))
print("done mismatches",bad)
