import numpy as np, casadi as ca, warnings, logging, os, sys
warnings.filterwarnings("ignore"); logging.getLogger("rtctools").setLevel(logging.CRITICAL)
from gp1 import SeedFix
from synth import Synth
from rtctools.optimization.goal_programming_mixin import GoalProgrammingMixin, Goal
from rtctools.optimization.single_pass_goal_programming_mixin import SinglePassGoalProgrammingMixin, SinglePassMethod, CachingQPSol
from rtctools.optimization.timeseries import Timeseries
rng=np.random.default_rng(int(sys.argv[1]) if len(sys.argv)>1 else 11)
class Base(SeedFix):
    def __init__(self, goals, opts, **kw): self._g=goals; self._o=opts; self.objs=[]; self.snap=[]; super().__init__(**kw)
    def bounds(self):
        b = super().bounds(); b["x"]=(-50.0,50.0); b["y"]=(-100.0,100.0); b["u"]=(-20.0,20.0); return b
    def path_goals(self): return self._g
    def goal_programming_options(self):
        o = super().goal_programming_options(); o.update(self._o); return o
    def priority_completed(self, p):
        self.objs.append(self.objective_value); self.snap.append({k:np.array(v).copy() for k,v in self.extract_results().items() if k in ("x","y","u")})
    def solver_options(self):
        o = super().solver_options(); o["ipopt"]["print_level"]=0; o["print_time"]=False; o["ipopt"]["tol"]=1e-10; return o
class MP(Base, GoalProgrammingMixin, Synth): pass
class SP1(Base, SinglePassGoalProgrammingMixin, Synth): pass
class SP2(Base, SinglePassGoalProgrammingMixin, Synth):
    single_pass_method = SinglePassMethod.UPDATE_OBJECTIVE_CONSTRAINT_BOUNDS
def quiet(f):
    fd=os.dup(1); dn=os.open(os.devnull, os.O_WRONLY); os.dup2(dn,1)
    try: return f()
    finally: os.dup2(fd,1); os.close(dn); os.close(fd)
rngs={"x":(-50.0,50.0),"y":(-100.0,100.0),"u":(-20.0,20.0)}
def mk(var, prio, kind, order, tmin=np.nan, tmax=np.nan, size=1, vars_=None):
    class G(Goal):
        def function(self, pr, m):
            if size==1: return pr.state(var)
            return ca.vertcat(*[pr.state(v) for v in vars_])
    g=G(); g.priority=prio; g.order=order; g.size=size
    if kind!="min":
        if size==1: g.function_range=rngs[var]
        else: g.function_range=(np.array([rngs[v][0] for v in vars_]), np.array([rngs[v][1] for v in vars_]))
        g.target_min=tmin; g.target_max=tmax
    return g
bad=0
for trial in range(12):
    n=int(rng.integers(2,5)); ts=np.concatenate([[0],np.cumsum(rng.choice([0.5,1.0,2.0], size=n-1))])
    cv=[list(rng.choice([0.5,1.0,-1.0],size=n))]
    # scalar goal set
    specs=[]
    for prio in (1,2,3):
        var=["x","y","u"][prio-1]
        kind=rng.choice(["tmin","tmax","min"]); order=int(rng.choice([1,2]))
        lo=float(rng.integers(-8,8))
        specs.append((var,prio,kind,order,lo))
    def goals():
        out=[]
        for var,prio,kind,order,lo in specs:
            out.append(mk(var,prio,kind,order, tmin=lo if kind=="tmin" else np.nan, tmax=lo if kind=="tmax" else np.nan))
        return out
    kw=dict(times=ts, pvals=[[0.5,1.0]], cvals=cv)
    res={}
    for name,cls,opts in [("mp_keep",MP,{"keep_soft_constraints":True}),("sp1",SP1,{}),("sp2",SP2,{}),("mp_default",MP,{})]:
        pr=cls(goals(), opts, **kw)
        try: ok=quiet(pr.optimize)
        except Exception as e: ok="EXC "+type(e).__name__+str(e)[-120:]
        res[name]=(ok, pr.objs)
    ref=res["mp_keep"][1]
    line=[f"{k}:{v[0]}:{np.round(v[1],6)}" for k,v in res.items()]
    okall = all(res[k][0] is True and len(res[k][1])==len(ref) and np.allclose(res[k][1], ref, atol=2e-6, rtol=1e-5) for k in ("sp1","sp2"))
    if not okall: bad+=1; print("DIFF", trial, specs, line)
print("done diffs", bad)
