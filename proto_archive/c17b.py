import numpy as np, casadi as ca, warnings, logging, os, sys
warnings.filterwarnings("ignore"); logging.getLogger("rtctools").setLevel(logging.CRITICAL)
from gp1 import SeedFix
from synth import Synth
from rtctools.optimization.goal_programming_mixin import GoalProgrammingMixin, Goal
from rtctools.optimization.min_abs_goal_programming_mixin import MinAbsGoalProgrammingMixin, MinAbsGoal
from rtctools.optimization.timeseries import Timeseries
rng=np.random.default_rng(int(sys.argv[1]) if len(sys.argv)>1 else 31)
rngs={"x":(-50.0,50.0),"y":(-100.0,100.0),"u":(-20.0,20.0)}
class Base(SeedFix):
    def __init__(self, goals, opts, mag=None, **kw): self._g=goals; self._o=opts; self._mag=mag or []; self.objs=[]; self.snap=[]; super().__init__(**kw)
    def bounds(self):
        b = super().bounds(); b["x"]=(-50.0,50.0); b["y"]=(-100.0,100.0); b["u"]=(-20.0,20.0); return b
    def path_goals(self): return super().path_goals()+self._g if hasattr(super(),"path_goals") else self._g
    def goal_programming_options(self):
        o = super().goal_programming_options(); o.update(self._o); return o
    def priority_completed(self, p):
        self.objs.append(self.objective_value); self.snap.append({k:np.array(v).copy() for k,v in self.extract_results().items() if k in ("x","y","u")})
    def solver_options(self):
        o = super().solver_options(); o["casadi_solver"]="qpsol"; o["solver"]="highs"; o.pop("ipopt",None); o["print_time"]=False
        o["highs"]={"output_flag":False}; o["error_on_fail"]=False
        return o
class MP(Base, GoalProgrammingMixin, Synth): pass
class MA(Base, MinAbsGoalProgrammingMixin, GoalProgrammingMixin, Synth):
    def min_abs_path_goals(self): return self._mag
def quiet(f):
    fd=os.dup(1); dn=os.open(os.devnull, os.O_WRONLY); os.dup2(dn,1)
    try: return f()
    finally: os.dup2(fd,1); os.close(dn); os.close(fd)
def mk(vars_, prio, kind, tmin=np.nan, tmax=np.nan, nominal=1.0, base=Goal):
    size=len(vars_)
    class G(base):
        def function(self, pr, m):
            return pr.state(vars_[0]) if size==1 else ca.vertcat(*[pr.state(v) for v in vars_])
    g=G(); g.priority=prio; g.order=1; g.size=size
    g.function_nominal = nominal
    if kind!="min":
        g.function_range = rngs[vars_[0]] if size==1 else (np.array([rngs[v][0] for v in vars_]), np.array([rngs[v][1] for v in vars_]))
        g.target_min=tmin; g.target_max=tmax
    return g
bad=0
for trial in range(25):
    n=int(rng.integers(2,5)); ts=np.concatenate([[0],np.cumsum(rng.choice([0.5,1.0,2.0], size=n-1))])
    kw=dict(times=ts, pvals=[[0.5,1.0]], cvals=[list(rng.choice([0.5,1.0,-1.0],size=n))])
    # (1) vector goal vs scalar goals
    vars_=list(rng.choice(["x","y","u"], size=2, replace=False)); lo=float(rng.integers(-5,5))
    tm = Timeseries(ts, np.stack([lo+rng.integers(0,3,size=n), lo+1.0+rng.integers(0,3,size=n)],axis=1).astype(float))
    gv=[mk(vars_,1,"tmin",tmin=tm), mk([str(rng.choice(["x","y","u"]))],2,"min")]
    gs=[mk([vars_[0]],1,"tmin",tmin=Timeseries(ts,tm.values[:,0].copy())), mk([vars_[1]],1,"tmin",tmin=Timeseries(ts,tm.values[:,1].copy())), gv[1]]
    a=MP(gv,{"keep_soft_constraints":True},**kw); okA=quiet(a.optimize)
    b=MP(gs,{"keep_soft_constraints":True},**kw); okB=quiet(b.optimize)
    if not (okA and okB and np.allclose(a.objs,b.objs,atol=1e-6,rtol=1e-6)): bad+=1; print("VECTOR DIFF",trial,okA,okB,a.objs,b.objs)
    # (2) nominal of a goal alone in its priority
    v=str(rng.choice(["x","y","u"])); lo=float(rng.integers(-5,5))
    res=[]
    for nomv in (1.0, 10.0, 0.01):
        g=[mk([v],1,"tmin",tmin=lo,nominal=nomv), mk([str(rng.choice(["x"]))],2,"min",nominal=nomv)]
        c=MP(g,{},**kw); okC=quiet(c.optimize); res.append((okC,[s_["x"] for s_ in c.snap]))
    if not all(r[0] for r in res) or not all(np.allclose(res[0][1][k],r[1][k],atol=1e-5,rtol=1e-5) for r in res for k in range(len(res[0][1]))):
        bad+=1; print("NOMINAL DIFF",trial,[ (r[0], [np.round(z,4) for z in r[1]]) for r in res])
    # (3) min-abs vs explicit |.| at optimum
    v=str(rng.choice(["x","y","u"]))
    ma=MA([mk([str(rng.choice(["x","y"]))],2,"min")],{},mag=[mk([v],1,"min",base=MinAbsGoal)],**kw); okM=quiet(ma.optimize)
    if okM:
        val=np.sum(np.abs(ma.snap[0][v]))
        # independent: minimise sum |v| via LP is what it should do; compare reported objective to sum|v| of its own solution
        if abs(ma.objs[0]-val)>1e-6*(1+abs(val)): bad+=1; print("MINABS DIFF",trial,ma.objs[0],val)
    else: bad+=1; print("MINABS FAIL",trial)
print("done diffs",bad)
