import json, random, subprocess, sys, numpy as np
from fractions import Fraction
sys.path.insert(0,"/tmp/exp")
from synth import Synth
o = Synth(times=[0,1,2], pvals=[[0.5,0.0]], cvals=[[1,1,1]])
r=random.Random(7)
def fr(x): x=Fraction(x); return f"{x.numerator}/{x.denominator}"
cases=[]
for i in range(3000):
    dy = i%2==0
    n=r.randint(2,7)
    if dy:
        ts=sorted(r.sample([k/8 for k in range(-40,80)], n)); fs=[r.randint(-64,64)/16 for _ in ts]
        q=[r.choice(ts+[ (ts[j]+ts[j+1])/2 for j in range(n-1)]+[ts[0]-1, ts[-1]+0.5]) for _ in range(6)]
    else:
        ts=sorted(r.uniform(-5,10) for _ in range(n)); fs=[r.uniform(-100,100) for _ in ts]
        q=[r.uniform(ts[0]-1, ts[-1]+1) for _ in range(5)]+[ts[r.randrange(n)]]
    cases.append((dy,ts,fs,q))
inp="\n".join(json.dumps({"ts":[fr(t) for t in ts],"fs":[fr(f) for f in fs],"q":[fr(x) for x in q]}) for _,ts,fs,q in cases)+"\n"
out=subprocess.run(["lean","--run","/root/proto/Drv.lean"],input=inp,capture_output=True,text=True).stdout.strip().split("\n")
exact=0; tol=0; bad=0
for (dy,ts,fs,q),line in zip(cases,out):
    model=[Fraction(s) for s in json.loads(line)]
    code=o.interpolate(np.array(q), np.array(ts), np.array(fs), 0.0, 0.0)
    for m,c in zip(model,code):
        if Fraction(float(c))==m: exact+=1
        elif abs(float(m)-c)<=1e-9*(1+abs(c)): tol+=1; 
        else: bad+=1; print("DIFF",dy,ts,fs,float(m),c)
        if dy and Fraction(float(c))!=m: print("dyadic not exact", ts, fs, float(m), c)
print("exact",exact,"within tol",tol,"bad",bad)
