import numpy as np, casadi as ca, logging
from synth import Synth
from rtctools.optimization.goal_programming_mixin import GoalProgrammingMixin, Goal, StateGoal
from rtctools._internal.alias_tools import AliasDict

class SeedFix:
    def seed(self, m):
        s = super().seed(m)
        for k in list(s.keys()):
            v = s[k]
            if isinstance(v, np.ndarray) and v.shape == (1,):
                s[k] = float(v[0])
        return s

class G1(StateGoal):   # x >= 2 wanted (soft), priority 1
    state="x"; target_min=2.0; priority=1
class G2(StateGoal):   # critical x <= 8, priority 2
    state="x"; target_max=8.0; priority=2; critical=True
class G3(Goal):        # minimise x, priority 3
    priority=3; order=1
    def function(self, pr, m): return pr.state("x")

class P(SeedFix, GoalProgrammingMixin, Synth):
    log=[]
    def bounds(self):
        b = super().bounds(); b["x"]=(0.0,10.0); b["y"]=(-100.0,100.0); return b
    def path_goals(self): return [G1(self), G2(self), G3()]
    def priority_completed(self, p):
        self.log.append((p, self.extract_results()["x"].copy()))
    def solver_options(self):
        o = super().solver_options(); o["ipopt"]["print_level"]=0; o["print_time"]=False; return o
if __name__=="__main__":
  pr = P(times=[0,1,2,3], pvals=[[0.5,0.0]], cvals=[[1,1,1,1]])
  ok = pr.optimize()
  print("ok", ok)
  for p,x in pr.log: print(p, np.round(x,4))
