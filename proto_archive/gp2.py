import numpy as np, casadi as ca
from gp1 import SeedFix, G1, G3
from synth import Synth
from rtctools.optimization.goal_programming_mixin import GoalProgrammingMixin, Goal, StateGoal
class ScriptedSolver:
    def __init__(self, script): self.script=list(script); self.calls=0
    def __call__(self, name, solver_name, nlp, options):
        outer=self; real=ca.nlpsol(name, solver_name, nlp, options)
        class S:
            def __call__(s, **kw): return real(**kw)
            def stats(s):
                st=dict(real.stats()); ok = outer.script[outer.calls] if outer.calls < len(outer.script) else True
                outer.calls+=1
                if not ok: st["success"]=False; st["return_status"]="Scripted_Failure"
                return st
        return S()
class Gm(Goal):
    priority=-5; order=1
    def function(self, pr, m): return pr.state("y")
class P(SeedFix, GoalProgrammingMixin, Synth):
    def __init__(self, script, **kw):
        self._ss=ScriptedSolver(script); self.hooks=[]; super().__init__(**kw)
    def bounds(self):
        b = super().bounds(); b["x"]=(0.0,10.0); b["y"]=(-100.0,100.0); return b
    def path_goals(self): return [G1(self), G3(), Gm()]
    def priority_started(self,p): super().priority_started(p); self.hooks.append(("S",p))
    def priority_completed(self, p): self.hooks.append(("C",p, id(self.extract_results())))
    def solver_options(self):
        o = super().solver_options(); o["ipopt"]["print_level"]=0; o["print_time"]=False; o["casadi_solver"]=self._ss; return o
for script in ([True,True,True],[True,False,True],[False],[True,True,False]):
    pr = P(script, times=[0,1,2,3], pvals=[[0.5,0.0]], cvals=[[1,1,1,1]])
    ok = pr.optimize(); print(script, ok, pr.hooks, "final id", id(pr.extract_results()), np.round(pr.extract_results()["x"],3))
