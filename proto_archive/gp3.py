import numpy as np, casadi as ca
from gp1 import SeedFix
from synth import Synth
from rtctools.optimization.goal_programming_mixin import GoalProgrammingMixin, Goal, StateGoal
from rtctools.optimization.timeseries import Timeseries
class G(Goal):
    priority=1; function_range=(-100.0,100.0); order=1
    def __init__(self, tm): self.target_min=tm
    def function(self, pr, m): return pr.state("x")
class Gmin(Goal):
    priority=2; order=1
    def function(self, pr, m): return pr.state("x")
class P(SeedFix, GoalProgrammingMixin, Synth):
    def __init__(self, tm, **kw): self._tm=tm; super().__init__(**kw)
    def bounds(self):
        b = super().bounds(); b["x"]=(-50.0,50.0); b["y"]=(-100.0,100.0); b["u"]=(-1000.0,1000.0); return b
    def path_goals(self): return [G(self._tm), Gmin()]
    def solver_options(self):
        o = super().solver_options(); o["ipopt"]["print_level"]=0; o["print_time"]=False; return o
T=[0,1,2,3,4]
for name, tm in [("full NaN-padded", Timeseries(np.array(T,float), np.array([np.nan,5,5,np.nan,np.nan]))),
                 ("short series", Timeseries(np.array([1.,2.]), np.array([5.,5.]))),
                 ("coarse series", Timeseries(np.array([0.,2.,4.]), np.array([np.nan,5.,np.nan])))]:
    pr = P(tm, times=T, pvals=[[0.5,0.0]], cvals=[[1]*5]); ok = pr.optimize()
    print(name, ok, "x =", np.round(pr.extract_results()["x"],3))
