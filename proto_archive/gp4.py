import numpy as np, casadi as ca
from gp1 import SeedFix
from synth import Synth
from rtctools.optimization.goal_programming_mixin import GoalProgrammingMixin, Goal, StateGoal
from rtctools.optimization.timeseries import Timeseries
class P(SeedFix, GoalProgrammingMixin, Synth):
    def __init__(self, goals, **kw): self._g=goals; super().__init__(**kw)
    def bounds(self):
        b = super().bounds(); b["x"]=(-50.0,50.0); b["y"]=(-100.0,100.0); b["u"]=(-1000.0,1000.0); return b
    def path_goals(self): return self._g
    def solver_options(self):
        o = super().solver_options(); o["ipopt"]["print_level"]=0; o["print_time"]=False; return o
def mk(**attrs):
    class G(Goal):
        def function(self, pr, m): return pr.state("x")
    g = G()
    for k,v in attrs.items(): setattr(g,k,v)
    return g
T=[0,1,2]
cases = {
 "min weight -1": [mk(priority=1, order=1, weight=-1.0)],
 "min weight 0": [mk(priority=1, order=1, weight=0.0)],
 "target weight -1": [mk(priority=1, target_min=1.0, function_range=(-10.0,10.0), weight=-1.0)],
 "critical weight -1": [mk(priority=1, target_min=1.0, critical=True, weight=-1.0)],
 "nominal 0": [mk(priority=1, order=1, function_nominal=0.0)],
 "target == range lo": [mk(priority=1, target_min=-10.0, function_range=(-10.0,10.0))],
 "target above range": [mk(priority=1, target_min=11.0, function_range=(-10.0,10.0))],
 "relax -1": [mk(priority=1, order=1, relaxation=-1.0)],
 "order 0": [mk(priority=1, order=0)],
 "priority str": [mk(priority="a", order=1)],
 "nonmonotone": [mk(priority=1, target_min=2.0, function_range=(-10.0,10.0), function_key="k"), mk(priority=2, target_min=1.0, function_range=(-10.0,10.0), function_key="k")],
 "nonmonotone same prio order": [mk(priority=2, target_min=1.0, function_range=(-10.0,10.0), function_key="k"), mk(priority=1, target_min=2.0, function_range=(-10.0,10.0), function_key="k")],
}
for name, goals in cases.items():
    try:
        pr = P(goals, times=T, pvals=[[0.5,0.0]], cvals=[[1]*3]); ok = pr.optimize()
        print(name, "-> accepted; ok=", ok, "x=", np.round(pr.extract_results()["x"],2))
    except Exception as e:
        print(name, "-> REJECTED:", type(e).__name__, str(e)[:70])
