import numpy as np, casadi as ca, os
from gp1 import SeedFix
from synth import Synth
from rtctools.optimization.goal_programming_mixin import GoalProgrammingMixin, Goal
class P(SeedFix, GoalProgrammingMixin, Synth):
    def __init__(self, goals, **kw): self._g=goals; self.snap=[]; super().__init__(**kw)
    def bounds(self):
        b = super().bounds(); b["x"]=(-50.0,50.0); b["y"]=(-100.0,100.0); b["u"]=(-1000.0,1000.0); return b
    def path_goals(self): return self._g
    def priority_completed(self,p): self.snap.append((p, np.round(self.extract_results()["x"],3)))
    def solver_options(self):
        o = super().solver_options(); o["ipopt"]["print_level"]=0; o["print_time"]=False; return o
def mk(**attrs):
    class G(Goal):
        def function(self, pr, m): return pr.state("x")
    g = G()
    for k,v in attrs.items(): setattr(g,k,v)
    return g
for nomB in (1.0, 10.0):
    goals=[mk(priority=1, target_min=2.0, function_range=(-50.0,50.0), function_key="k", function_nominal=1.0),
           mk(priority=2, target_max=8.0, function_range=(-50.0,50.0), function_key="k", function_nominal=nomB),
           mk(priority=3, order=1, weight=1.0)]
    pr=P(goals, times=[0,1,2], pvals=[[0.5,0.0]], cvals=[[1]*3])
    fd=os.dup(1); dn=os.open(os.devnull, os.O_WRONLY); os.dup2(dn,1)
    try: ok=pr.optimize()
    finally: os.dup2(fd,1)
    print("nominal of p2 goal", nomB, "ok", ok, pr.snap)
