import logging
from rtctools.optimization.optimization_problem import OptimizationProblem
from rtctools.optimization.homotopy_mixin import HomotopyMixin
from pymoca.backends.casadi.alias_relation import AliasRelation
logging.getLogger("rtctools").setLevel(logging.CRITICAL)
class Stub(OptimizationProblem):
    def __init__(self, script, opts):
        self.script=list(script); self.opts=opts; self.log=[]; self._ar=AliasRelation()
        super().__init__()
    alias_relation = property(lambda s: s._ar)
    def optimize(self, preprocessing=True, postprocessing=True, log_solver_failure_as_error=True):
        th = self.parameters(0)["theta"]
        ok = self.script.pop(0) if self.script else True
        self.log.append((th, ok)); self.last=th if ok else getattr(self,'last',None)
        return ok
    def extract_results(self, m=0): return {}
    ensemble_size=1
    def pre(self): pass
    def post(self): pass
    def clear_transcription_cache(self): pass
    # abstract stubs
    def transcribe(self): pass
    solver_input=None; dae_residual=None; dae_variables={}; controls=[]; differentiated_states=[]; algebraic_states=[]
    def variable(self,v): pass
    def discretize_controls(self,b): pass
    def extract_controls(self,m=0): pass
    def control_at(self,*a): pass
    def discretize_states(self,b): pass
    def extract_states(self,m=0): pass
    def state_vector(self,*a): pass
    def state_at(self,*a): pass
    def extra_variable(self,*a): pass
    def states_in(self,*a): pass
    def integral(self,*a): pass
    def der(self,*a): pass
    def der_at(self,*a): pass
    def times(self, v=None): return [0,1]
class T(HomotopyMixin, Stub):
    def homotopy_options(self):
        o = super().homotopy_options(); o.update(self.opts); return o
for script, opts in [([], {}), ([], {"delta_theta_0":0.3}), ([], {"theta_start":0.5}), ([True,False,True,False], {}), ([True]+[False]*20, {}), ([False], {})]:
    t = T(script, opts); r = t.optimize(); print(opts, r, t.log)
