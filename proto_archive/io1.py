import numpy as np, logging, casadi as ca
from datetime import datetime, timedelta
from rtctools.optimization.collocated_integrated_optimization_problem import CollocatedIntegratedOptimizationProblem
from rtctools.optimization.modelica_mixin import ModelicaMixin
from rtctools.optimization.io_mixin import IOMixin
logging.getLogger("rtctools").setLevel(logging.ERROR)
class DummyIO(IOMixin):
    def read(self):
        ref = datetime(2020,1,1)
        dts = [ref + timedelta(seconds=s) for s in [-1,0,1,2]]
        self.io.reference_datetime = ref
        self.io.set_timeseries("u", dts, np.array([0.5]*4))
        self.io.set_timeseries("x_Max", dts, np.array([15.0,15.0,np.nan,12.0]))
    def write(self): pass
class P(DummyIO, ModelicaMixin, CollocatedIntegratedOptimizationProblem):
    def compiler_options(self):
        o = super().compiler_options(); o["cache"]=False; return o
class P2(ModelicaMixin, DummyIO, CollocatedIntegratedOptimizationProblem):
    def compiler_options(self):
        o = super().compiler_options(); o["cache"]=False; return o
for C in (P,):
    p = C(model_folder="/tmp/exp/mo", model_name="M", input_folder="/tmp/exp", output_folder="/tmp/exp")
    p.pre()
    print(C.__name__, "times", p.times(), "bounds x", p.bounds()["x"])
    d, lbx, ubx, lbg, ubg, x0, nlp = p.transcribe()
    print(lbx, ubx)
