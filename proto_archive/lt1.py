import numpy as np, logging, traceback
from synth import Synth
from rtctools.optimization.csv_lookup_table_mixin import CSVLookupTableMixin
class P(CSVLookupTableMixin, Synth): pass
def mk(): return P(times=[0,1,2], pvals=[[0.5,0.0]], cvals=[[1,1,1]], input_folder="/tmp/exp/lt")
p = mk(); p.pre()
t = p.lookup_tables(0)["yy"]
print("domain", t.domain, "range", t.range, "f(2.5)=", t(2.5))
try: print("reverse 6.0 ->", t.reverse_call(6.0))
except Exception as e: print("reverse EXC:", type(e).__name__, str(e)[:120])
print("reverse no range check ->", t.reverse_call(6.0, detect_range_error=False))
# second pre() without ini file
try:
    p2 = mk(); p2.pre(); print("second pre ok")
except Exception as e: print("second pre EXC:", type(e).__name__, e)
