import numpy as np, logging, casadi as ca
from rtctools.optimization.collocated_integrated_optimization_problem import CollocatedIntegratedOptimizationProblem
from rtctools.optimization.modelica_mixin import ModelicaMixin
logging.getLogger("rtctools").setLevel(logging.ERROR)
class P(ModelicaMixin, CollocatedIntegratedOptimizationProblem):
    def compiler_options(self):
        o = super().compiler_options(); o["cache"]=False; return o
    def times(self, variable=None): return np.array([0.0,1.0,2.0])
class P2(P):
    def parameters(self, m):
        p = super().parameters(m); p["pmax"]=9.0; p["pstart"]=-1.0; return p
for C in (P,P2):
    p = C(model_folder="/tmp/exp/mo", model_name="M3", input_folder="/tmp/exp", output_folder="/tmp/exp")
    dv=p.dae_variables
    print(C.__name__, {k:[s.name() for s in v] for k,v in dv.items() if k in ("states","algebraics","control_inputs","constant_inputs","parameters")})
    print("  outputs", [s.name() for s in p.output_variables])
    b=p.bounds(); print("  bounds", {k:b[k] for k in ("x","w","v","sw","cnt","u","u2")})
    print("  nominal", {k:p.variable_nominal(k) for k in ("x","w","v","u","u2","cnt")})
    print("  discrete", {k:p.variable_is_discrete(k) for k in ("x","sw","cnt","u")})
    h=p.history(0); print("  history", {k:(h[k].times, h[k].values) for k in h.keys()})
    s=p.seed(0); print("  seed", {k:s[k].values for k in s.keys()})
    print("  params", dict(p.parameters(0).items()))
