import numpy as np, logging, casadi as ca
from rtctools.optimization.collocated_integrated_optimization_problem import CollocatedIntegratedOptimizationProblem
from rtctools.optimization.modelica_mixin import ModelicaMixin
from rtctools.optimization.timeseries import Timeseries
from rtctools._internal.alias_tools import AliasDict
logging.getLogger("rtctools").setLevel(logging.ERROR)
class P(ModelicaMixin, CollocatedIntegratedOptimizationProblem):
    def compiler_options(self):
        o = super().compiler_options(); o["cache"]=False; return o
    def times(self, variable=None): return np.array([0.0,1.0,2.0])
    def constant_inputs(self, m):
        return AliasDict(self.alias_relation, {"u": Timeseries(self.times(), np.array([0.5,0.5,0.5]))})
    def objective(self, m): return self.state_at("y", 2.0)**2
p = P(model_folder="/tmp/exp/mo", model_name="M", input_folder="/tmp/exp", output_folder="/tmp/exp")
print("nominal x", p.variable_nominal("x"), "nominal y", p.variable_nominal("y"))
print("bounds x", p.bounds()["x"], "bounds y", p.bounds()["y"])
print(p.history(0)["x"], p.history(0)["y"])
ok = p.optimize()
r = p.extract_results()
print(ok, r["x"], r["y"])
X = p.solver_input
f = ca.Function("f",[X],[p.state_at("y", 1.0), p.state_at("x",1.0), p.state_at("y",1.5, scaled=True)])
print(f(p.solver_output))
