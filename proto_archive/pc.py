import numpy as np, casadi as ca
from synth import Synth
class S3(Synth):
    def path_constraints(self, m):
        p = self.variable("p")
        return [(self.state("x"), -np.inf, 2*p)]
for pv in ([[3.0,0.0]], [[3.0,0.0],[7.0,0.0]], [[3.0,1.0],[7.0,2.0]]):
    try:
        pr = S3([0,1,2], pv, [[1,1,1]]*len(pv))
        d, lbx, ubx, lbg, ubg, x0, nlp = pr.transcribe()
        print(pv, "ubg tail", np.array(ca.veccat(*ubg)).ravel())
    except Exception as e:
        print(pv, "EXC", type(e).__name__, str(e)[:300])
