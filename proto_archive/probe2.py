import numpy as np, casadi as ca
from rtctools._internal.casadi_helpers import interpolate
ts=[0.,1.,3.]; xs=ca.DM([10.,20.,40.])
for mode in (0,1,2):
    print(mode, [float(interpolate(ts, xs, [t], False, mode)) for t in (-1,0,0.5,1,2,3,4)])
# int16
a = np.zeros(3, dtype=np.int16)
try:
    a[:] = [40000,40001,40002]; print(a)
except Exception as e: print("int16 assign error:", type(e).__name__, e)
