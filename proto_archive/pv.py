import numpy as np, casadi as ca
from synth import Synth
from rtctools.optimization.timeseries import Timeseries
from rtctools._internal.alias_tools import AliasDict
class S2(Synth):
    def __init__(self,*a,**k):
        self._pv = ca.MX.sym("pv", 2); super().__init__(*a,**k)
    @property
    def path_variables(self): return [self._pv]
    def bounds(self):
        b = super().bounds()
        t = self.times()
        lo = np.array([[1.,100.],[2.,200.],[3.,300.]])  # (n_times, size): comp0=1,2,3 comp1=100,200,300
        b["pv"] = (Timeseries(t, lo), Timeseries(t, lo+0.5))
        return b
    def path_constraints(self, m): return [(self._pv[0]+self._pv[1], -1e6, 1e6)]
pr = S2([0,1,2], [[3.0,0.0]], [[1,1,1]])
d, lbx, ubx, lbg, ubg, x0, nlp = pr.transcribe()
X = nlp["x"]; f = ca.Function("sv",[X],[pr.state_vector("pv")])
idx = np.array(f(np.arange(X.size1()))).ravel().astype(int)
print("pv idx", idx, "lbx", lbx[idx])
import types
class FakeOut: pass
pr._OptimizationProblem__solver_output = np.arange(X.size1(), dtype=float)
print("results layout (rows=time, cols=comp):\n", pr.extract_results()["pv"])
