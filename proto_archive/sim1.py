import numpy as np, logging
from rtctools.simulation.simulation_problem import SimulationProblem
logging.getLogger("rtctools").setLevel(logging.ERROR)
class S(SimulationProblem):
    def compiler_options(self):
        o = super().compiler_options(); o["cache"]=False; return o
s = S(model_folder="/tmp/exp/mo", model_name="M", input_folder="/tmp/exp", output_folder="/tmp/exp")
print("aliases x:", s.alias_relation.aliases("x"), s.alias_relation.canonical_signed("y"))
s.setup_experiment(0, 10, 1.0)
s.set_var("u", 0.5)
s.initialize()
print("x", s.get_var("x"), "y", s.get_var("y"), "z", s.get_var("z"), "nom x", s.get_variable_nominal("x"), "nom y", s.get_variable_nominal("y"))
s.update(1.0)
print("x", s.get_var("x"), "y", s.get_var("y"), "z", s.get_var("z"))
s.set_var("y", 3.0)
print("after set y=3: x", s.get_var("x"), "y", s.get_var("y"))
