import numpy as np, logging, os
from rtctools.simulation.simulation_problem import SimulationProblem
logging.getLogger("rtctools").setLevel(logging.ERROR)
class S(SimulationProblem):
    def compiler_options(self):
        o = super().compiler_options(); o["cache"]=False; return o
s = S(model_folder="/tmp/exp/mo", model_name="M2", input_folder="/tmp/exp", output_folder="/tmp/exp")
print("canon y,yneg:", s.alias_relation.canonical_signed("y"), s.alias_relation.canonical_signed("yneg"))
s.setup_experiment(0, 10, 0.5)
s.set_var("u", 0.3)
fd=os.dup(1); dn=os.open(os.devnull, os.O_WRONLY); os.dup2(dn,1)
s.initialize(); os.dup2(fd,1)
a,b=0.5,2.0
def snap(): return {k: float(s.get_var(k)) for k in ("x","w","y","yneg","z","der(x)","der(w)","time","u")}
prev=snap(); print(prev)
worst=0
us=[0.3,1.0,-0.5,0.2,0.0,2.0]
for k,dt in enumerate([0.5,0.5,0.25,1.0,0.5]):
    s.set_var("u", us[k+1])
    os.dup2(dn,1); s.update(dt); os.dup2(fd,1)
    cur=snap()
    dx=(cur["x"]-prev["x"])/dt; dw=(cur["w"]-prev["w"])/dt
    res=[dx + a*cur["x"] - cur["u"], dw - cur["x"] + b*cur["w"], cur["y"]-cur["x"]-cur["w"], cur["yneg"]+cur["y"], cur["z"]-2*cur["y"], cur["der(x)"]-dx, cur["der(w)"]-dw, cur["time"]-prev["time"]-dt]
    worst=max(worst, max(abs(r) for r in res)); print(k, {k_:round(v,5) for k_,v in cur.items()}, "maxres", max(abs(r) for r in res))
    prev=cur
print("worst", worst)
