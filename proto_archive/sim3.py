import numpy as np, logging, os
from rtctools.simulation.simulation_problem import SimulationProblem
logging.getLogger("rtctools").setLevel(logging.ERROR)
def run(tau, dt, steps=8):
    class S(SimulationProblem):
        def compiler_options(self):
            o = super().compiler_options(); o["cache"]=False; return o
        def parameters(self):
            p=super().parameters(); return p
    src=open("/tmp/exp/mo/MD.mo").read().replace("tau = 0.75", f"tau = {tau}")
    os.makedirs("/tmp/exp/mo_d", exist_ok=True); open("/tmp/exp/mo_d/MD.mo","w").write(src)
    s=S(model_folder="/tmp/exp/mo_d", model_name="MD", input_folder="/tmp/exp", output_folder="/tmp/exp", fixed_dt=dt)
    s.setup_experiment(0, 100, dt); s.set_var("u", 0.3)
    fd=os.dup(1); dn=os.open(os.devnull, os.O_WRONLY); os.dup2(dn,1)
    try:
        s.initialize()
        T=[0.0]; X=[float(s.get_var("x"))]; Y=[float(s.get_var("yd"))]
        us=[0.3,1.0,-0.5,0.2,0.0,2.0,1.0,0.5,0.1]
        for k in range(steps):
            s.set_var("u", us[k+1]); s.update(dt); T.append(float(s.get_var("time"))); X.append(float(s.get_var("x"))); Y.append(float(s.get_var("yd")))
    finally: os.dup2(fd,1)
    T=np.array(T); X=np.array(X); Y=np.array(Y)
    E=2*X
    exp=np.interp(T-tau, T, E)  # clamp before t0 = constant extrapolation of the t0 value
    return np.max(np.abs(Y-exp)), Y, exp
for tau,dt in [(0.75,0.5),(0.5,0.5),(0.0,0.5),(0.2,0.5),(1.3,0.5),(2.0,0.25),(1.0,1.0)]:
    err,Y,exp=run(tau,dt); print("tau",tau,"dt",dt,"max err",err)
