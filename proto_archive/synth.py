import numpy as np, casadi as ca, logging
from rtctools._internal.alias_tools import AliasDict
from pymoca.backends.casadi.alias_relation import AliasRelation
from rtctools.optimization.collocated_integrated_optimization_problem import CollocatedIntegratedOptimizationProblem
from rtctools.optimization.timeseries import Timeseries
logging.getLogger("rtctools").setLevel(logging.ERROR)

class Synth(CollocatedIntegratedOptimizationProblem):
    """x' = -p*x + u + c ; y = x + q (algebraic)"""
    def __init__(self, times=None, pvals=None, cvals=None, theta=1.0, nom=None, **kw):
        self._times = np.array(times, dtype=float)
        self._pvals = pvals; self._cvals = cvals; self._theta = theta; self._nom = nom or {}
        x = ca.MX.sym("x"); dx = ca.MX.sym("der(x)"); y = ca.MX.sym("y"); u = ca.MX.sym("u")
        c = ca.MX.sym("c"); p = ca.MX.sym("p"); q = ca.MX.sym("q"); t = ca.MX.sym("time")
        self._mx = dict(time=[t], states=[x], derivatives=[dx], algebraics=[y], control_inputs=[u],
                        constant_inputs=[c], parameters=[p, q], lookup_tables=[])
        self._res = ca.vertcat(dx + p * x - u - c, y - x - q)
        self._ar = AliasRelation()
        super().__init__(**kw)
    @property
    def dae_variables(self): return self._mx
    @property
    def dae_residual(self): return self._res
    @property
    def alias_relation(self): return self._ar
    @property
    def theta(self): return self._theta
    def times(self, variable=None): return self._times
    @property
    def ensemble_size(self): return len(self._pvals)
    def parameters(self, ensemble_member):
        m = ensemble_member
        d = AliasDict(self._ar); d["p"] = self._pvals[m][0]; d["q"] = self._pvals[m][1]; return d
    def constant_inputs(self, ensemble_member):
        m = ensemble_member
        d = AliasDict(self._ar); d["c"] = Timeseries(self._times, np.array(self._cvals[m], dtype=float)); return d
    def variable_nominal(self, v):
        return self._nom.get(v, 1)
    def bounds(self):
        b = AliasDict(self._ar); b["u"] = (-10.0, 10.0); return b
    def map_options(self): return {"mode": "serial"} if False else {"mode":"unroll"}

if __name__ == "__main__":
    for pv in ([[1.0, 0.0],[2.0, 5.0]], [[0.0, 0.0],[5.0, 3.0]], [[2.0,0.0],[1.0,0.0]], [[3.0,0.0],[7.0,0.0]]):
        pr = Synth([0,1,2], pv, [[1,1,1],[1,1,1]])
        discrete, lbx, ubx, lbg, ubg, x0, nlp = pr.transcribe()
        X = nlp["x"]; n = X.size1()
        f = ca.Function("g", [X], [nlp["g"]])
        v = np.arange(1, n+1, dtype=float)
        print(pv, np.array(f(v)).ravel())
