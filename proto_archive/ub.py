import numpy as np
from rtctools.optimization.goal_programming_mixin_base import _GoalConstraint, Goal
class G(Goal):
    def function(self,*a): pass
g=G()
def t(s,o,enf):
    a=_GoalConstraint(g,None,float(s[0]),float(s[1]),True); b=_GoalConstraint(g,None,float(o[0]),float(o[1]),True)
    a.update_bounds(b,enforce=enf); return (float(a.min),float(a.max))
for s,o in [((2,5),(0,10)),((2,5),(3,4)),((2,5),(3,10)),((2,5),(6,8)),((3,3),(5,np.inf)),((2,5),(0,1)), ((2,np.inf),(-np.inf,8))]:
    print(s,o,"self:",t(s,o,"self"),"other:",t(s,o,"other"))
