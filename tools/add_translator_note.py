#!/usr/bin/env python3
"""tools/add_translator_note.py CXX "<claims sentence>" "<DESIGN table row: translated>" "<DESIGN: module / obligations>" """
import json, sys
pid, sent, what, mod = sys.argv[1:5]
c = json.load(open('/verif/tools/claims.json'))
if "Second tie" not in c[pid]['text']:
    c[pid]['text'] = c[pid]['text'].rstrip() + " Second tie: " + sent
json.dump(c, open('/verif/tools/claims.json', 'w'), indent=1)
s = open('/verif/DESIGN.md').read()
marker = "\n  Each was tried in a scratch worktree with at least three behaviour-changing edits"
row = "  | %s | %s | %s |\n" % (pid, what, mod)
if row not in s:
    i = s.index(marker)
    s = s[:i].rstrip("\n") + "\n" + row.rstrip("\n") + "\n" + s[i:]
    open('/verif/DESIGN.md', 'w').write(s)
