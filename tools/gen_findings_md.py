#!/usr/bin/env python3
"""Rewrite the generated findings table in DESIGN.md (between the FINDINGS markers) from known_findings.jsonl."""
import json, os, re
HERE = os.path.dirname(os.path.dirname(os.path.abspath(__file__)))
rows = [json.loads(l) for l in open(os.path.join(HERE, "known_findings.jsonl")) if l.strip()]
out = ["| id | status | properties | what failed on the unchanged tree | handling |", "|----|--------|-----------|------------------------------------|----------|"]
def key(r):
    m = re.match(r"F(\d+)(\w*)", r["id"]); return (int(m.group(1)), m.group(2))
for r in sorted(rows, key=key):
    handling = ("`fix:` commit %s in /repo" % r.get("commit")) if r["status"] == "fixed" else "known finding (printed as `KNOWN-FINDING`, matcher: %s)" % r.get("matcher", "see probe")
    out.append("| %s | %s | %s | %s | %s |" % (r["id"], r["status"], ", ".join(r["properties"]), r["what"].replace("|", "\\|"), handling))
p = os.path.join(HERE, "DESIGN.md")
s = open(p).read()
a, b = "<!-- FINDINGS-BEGIN -->", "<!-- FINDINGS-END -->"
block = a + "\n" + "\n".join(out) + "\n" + b
if a in s:
    s = re.sub(re.escape(a) + r".*?" + re.escape(b), lambda m: block, s, flags=re.S)
else:
    raise SystemExit("markers missing")
open(p, "w").write(s)
print(len(rows), "findings")
