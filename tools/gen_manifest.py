#!/usr/bin/env python3
"""Regenerate MANIFEST.json from tools/claims.json (per-property texts) and the files present."""
import json
import os

HERE = os.path.dirname(os.path.dirname(os.path.abspath(__file__)))
claims = json.load(open(os.path.join(HERE, "tools", "claims.json")))
props = [json.loads(l) for l in open(os.path.join(HERE, "properties.jsonl"))]
checks, na = [], []
for p in props:
    pid = p["id"]
    cl = claims.get(pid)
    have = (os.path.exists(os.path.join(HERE, "harness", pid.lower() + ".py"))
            and os.path.exists(os.path.join(HERE, "lean", "RtcVerif", "Props", pid + ".lean")))
    if cl and have and cl.get("claimed", True):
        checks.append({
            "property_id": pid,
            "quick_cmd": "./check %s --tier quick" % pid,
            "thorough_cmd": "./check %s --tier thorough" % pid,
            "evidence_file": "/verif/evidence/%s.json" % pid,
            "replay_cmd_template": "./check %s --replay {path}" % pid,
            "engine": "lean4-proof+correspondence",
            "level_claimed": {"category": "proof", "text": cl["text"], "design_ref": cl.get("design_ref", "DESIGN.md section 5 " + pid)},
            "level_note": cl["note"],
            "technique": cl.get("technique", "Lean 4 theorems about a hand-written executable model; model tied to /repo by a differential correspondence check on every run"),
        })
    else:
        na.append({"property_id": pid, "reason": (cl or {}).get("na_reason", "not claimed yet: model, theorems and correspondence check for this property are still under construction (DESIGN.md section 8); no other technique is substituted")})
m = {
    "version": 1,
    "setup_cmd": "cd lean && lake build",
    "hooks": {
        "guard": "RTCTOOLS_VERIF",
        "enable": "no hooks are installed in /repo: the harness observes through the public API only (the guard name is reserved)",
        "baseline_off_cmd": "cd /repo && /venv/bin/python -m pytest -ra -q -p no:cacheprovider --timeout=900 --continue-on-collection-errors",
        "source_commits": [],
        "add_only": True,
    },
    "engines": [{
        "name": "lean4-proof+correspondence",
        "path": "/verif/check",
        "serves_properties": [c["property_id"] for c in checks],
        "kind_free_text": "Lean 4.33 theorems (lean/RtcVerif/Props/Cxx.lean) about hand-written executable models (lean/RtcVerif/Model), "
                          "audited with #print axioms on every run; Python correspondence harness (harness/cxx.py) drives the real rtc-tools code "
                          "from /repo/src and the Lean model driver (lean/Drivers/Cxx.lean) on the same generated inputs and diffs them; an "
                          "independent oracle searches for a failing input when a proof or the correspondence breaks",
    }],
    "checks": checks,
    "not_applicable": na,
    "notes": "Entry point ./check <id> --tier quick|thorough [--replay f]; VERIF_SEED / VERIF_TIER honoured. Known findings: known_findings.jsonl. "
             "Genuine defects repaired in /repo as 'fix:' commits are listed there as fixed.",
}
json.dump(m, open(os.path.join(HERE, "MANIFEST.json"), "w"), indent=1)
print("claimed:", [c["property_id"] for c in checks])
print("not claimed:", [n["property_id"] for n in na])
