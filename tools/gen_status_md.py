#!/usr/bin/env python3
"""Rewrite the generated status sections of DESIGN.md (between STATUS markers): per-property built status
from evidence/*.json + tools/claims.json, and the seeded-change catch matrix from seeded/*/meta.json."""
import glob, json, os, re
HERE = os.path.dirname(os.path.dirname(os.path.abspath(__file__)))
claims = json.load(open(os.path.join(HERE, "tools", "claims.json")))
props = [json.loads(l) for l in open(os.path.join(HERE, "properties.jsonl"))]
out = []
out.append("### 9.1 What is built, per property (generated from `evidence/` and `tools/claims.json`)\n")
out.append("| id | theorems (all discharged, standard axioms only) | quick run: evaluations / distinct / wall | what the check claims |")
out.append("|----|----|----|----|")
for p in props:
    pid = p["id"]
    ev = os.path.join(HERE, "evidence", pid + ".json")
    if pid not in claims or not os.path.exists(ev):
        out.append("| %s | — | — | not claimed |" % pid)
        continue
    e = json.load(open(ev))
    cov = e["coverage"]
    names = ", ".join("`%s`" % t for t in cov.get("theorems", []))
    out.append("| %s | %d: %s | %d / %d / %.0f s | %s |" % (
        pid, cov.get("obligations", 0), names, cov.get("evaluations", 0), cov.get("distinct_nontrivial", 0),
        e.get("wall_s", 0), claims[pid]["text"].replace("|", "\\|")))
out.append("")
out.append("Modelled-not-verified / partial, per property:\n")
for p in props:
    pid = p["id"]
    if pid in claims:
        out.append("* **%s** — %s" % (pid, claims[pid]["note"]))
out.append("")
out.append("### 9.2 Seeded changes and which checks catch them (generated from `seeded/*/meta.json`)\n")
out.append("Each change was written by an independent sub-agent that saw only the property text and its own scratch "
           "worktree; it passes the unedited suite (299 passed) and comes with a demonstration that fails with the change "
           "and passes without it (re-run by the coordinator).  Trials: fresh worktree of /repo HEAD + `patch.diff`, "
           "`RTC_REPO=<worktree> ./check <id> --tier quick` (the quick tier escalates to thorough size because an anchored "
           "file changed).\n")
out.append("| seed | property | what the change breaks | needs to manifest | result per check |")
out.append("|----|----|----|----|----|")
for mp in sorted(glob.glob(os.path.join(HERE, "seeded", "*", "meta.json"))):
    m = json.load(open(mp))
    det = "; ".join("%s: %s" % (k, v.replace(" [quick tier escalated to thorough size: anchored file changed]", "")) for k, v in sorted(m.get("detected_by", {}).items())) or "not yet tried"
    if m.get("history"):
        det += " — " + m["history"]
    out.append("| %s | %s | %s | %s | %s |" % (m["id"], m["property"], m["breaks"].replace("|", "\\|"), m["needs_to_manifest"].replace("|", "\\|"), det))
p = os.path.join(HERE, "DESIGN.md")
s = open(p).read()
a, b = "<!-- STATUS-BEGIN -->", "<!-- STATUS-END -->"
block = a + "\n" + "\n".join(out) + "\n" + b
if a not in s:
    s += "\n\n---------------------------------------------------------------------------------------------------\n\n## 9. Built status (round 1)\n\n" + block + "\n"
else:
    s = re.sub(re.escape(a) + r".*?" + re.escape(b), lambda m: block, s, flags=re.S)
open(p, "w").write(s)
print("ok")
