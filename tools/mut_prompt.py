#!/usr/bin/env python3
"""print the prompt for an independent mutation agent: tools/mut_prompt.py C07 a ["focus text"]"""
import json, subprocess, sys
pid, tag = sys.argv[1], sys.argv[2]
focus = sys.argv[3] if len(sys.argv) > 3 else ""
wt = "/tmp/mut_%s_%s" % (pid.lower(), tag)
subprocess.run(["git", "-C", "/repo", "worktree", "add", "--detach", wt, "HEAD"], capture_output=True)
p = next(json.loads(l) for l in open("/verif/properties.jsonl") if json.loads(l)["id"] == pid)
print("Read /verif/tools/prompts/mutation.md (that single file only; nothing else under /verif) and follow it. "
      "Your worktree: %s . Demo id: %s%s.\n" % (wt, pid.lower(), tag))
print("Property (title: %s):\n\"%s\"" % (p["title"], p["statement"]))
print("Quantified over: %s" % p["quantifier"]["text"])
print("Code: " + "; ".join("%s (%s)" % (m["name"], m.get("where", "")) for m in p["anchors"]["mechanism"]))
if focus:
    print("Focus for this task: " + focus)
