#!/bin/bash
# run every claimed check's quick command on the clean tree (seed from $1, default 0); evidence is rewritten
SEED=${1:-0}
cd /verif
for p in $(python3 -c "import json;print(' '.join(c['property_id'] for c in json.load(open('MANIFEST.json'))['checks']))"); do
  VERIF_SEED=$SEED ./check $p --tier quick > /tmp/runall_$p.log 2>&1; e=$?
  echo "$p exit=$e $(grep -c VIOLATION /tmp/runall_$p.log) $(tail -1 /tmp/runall_$p.log | cut -c1-170)"
done
