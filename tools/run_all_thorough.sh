#!/bin/bash
# run every claimed check's thorough command on the clean tree, outputs under /tmp/thorough_out (evidence in /verif untouched)
SEED=${1:-0}
cd /verif
for p in $(python3 -c "import json;print(' '.join(c['property_id'] for c in json.load(open('MANIFEST.json'))['checks']))"); do
  VERIF_OUT=/tmp/thorough_out VERIF_SEED=$SEED timeout 3600 ./check $p --tier thorough > /tmp/thorough_$p.$SEED.log 2>&1; e=$?
  echo "$p seed=$SEED exit=$e $(grep -c VIOLATION /tmp/thorough_$p.$SEED.log) $(tail -1 /tmp/thorough_$p.$SEED.log | cut -c1-170)"
done
