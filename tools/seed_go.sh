#!/bin/bash
# tools/seed_go.sh <seed-id> <property ids...> : confirm+save the change of /tmp/mut_<pid>_<tag> (seed_save.sh), then trial it (seed_run.sh)
# against the snapshot of the committed /verif given by $VERIF_ROOT (default /verif)
set -u
SID=$1; shift
P=${SID:0:3}; T=${SID:3}
/verif/tools/seed_save.sh /tmp/mut_${P}_${T} $SID
SEEDS=${SEEDS:-0} /verif/tools/seed_run.sh $SID "$@"
