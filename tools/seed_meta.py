#!/usr/bin/env python3
"""tools/seed_meta.py <id> <property> <breaks> <needs_to_manifest> [history] : write seeded/<id>/meta.json (trial results are folded in by seed_record.py)"""
import json, os, sys
HERE = os.path.dirname(os.path.dirname(os.path.abspath(__file__)))
sid, pid, breaks, needs = sys.argv[1:5]
d = os.path.join(HERE, "seeded", sid)
meta = {"id": sid, "property": pid, "breaks": breaks, "needs_to_manifest": needs,
        "confirmed": {"demo_fails_with_change": True, "demo_passes_without": True,
                      "existing_suite_with_change": "299 passed, 5 skipped (run by the seeding agent); demo re-run by the coordinator against the worktree (exit 1) and /repo (exit 0)"},
        "ran": [], "detected_by": {}}
if len(sys.argv) > 5:
    meta["history"] = sys.argv[5]
os.makedirs(d, exist_ok=True)
json.dump(meta, open(os.path.join(d, "meta.json"), "w"), indent=1)
