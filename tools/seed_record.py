#!/usr/bin/env python3
"""tools/seed_record.py LOG... : fold seed_run.sh output lines into seeded/<id>/meta.json (ran / detected_by)."""
import json, os, re, sys
HERE = os.path.dirname(os.path.dirname(os.path.abspath(__file__)))
for log in sys.argv[1:]:
    for line in open(log):
        m = re.match(r"(\w+) (C\d+) seed=(\d+) exit=(\d+) :: (.*?) :: (.*)", line.strip())
        if not m:
            continue
        sid, pid, seed, ex, viol, summary = m.groups()
        mp = os.path.join(HERE, "seeded", sid, "meta.json")
        if not os.path.exists(mp):
            continue
        meta = json.load(open(mp))
        cmd = "RTC_REPO=<fresh worktree of /repo HEAD + patch.diff> VERIF_SEED=%s ./check %s --tier quick" % (seed, pid)
        if cmd not in meta["ran"]:
            meta["ran"].append(cmd)
        if ex == "1" and "VIOLATION" in viol:
            kind = "VIOLATION, no-failing-input-found (correspondence disagreement only)" if "no-failing-input-found" in viol else "VIOLATION with a failing input (oracle)"
        elif ex == "0":
            kind = "NOT detected (exit 0)"
        else:
            kind = "exit %s" % ex
        esc = " [quick tier escalated to thorough size: anchored file changed]" if "escalated" in summary else ""
        meta["detected_by"][pid] = kind + esc
        json.dump(meta, open(mp, "w"), indent=1)
        print(sid, pid, kind)
