#!/bin/bash
# tools/seed_run.sh <seed-id> <property ids...> : fresh worktree of /repo HEAD + the saved patch, run the checks against it
set -u
SID=$1; shift
WT=/tmp/seedrun_$SID; OUT=/tmp/seed_out/$SID; mkdir -p $OUT
git -C /repo worktree remove --force $WT >/dev/null 2>&1
git -C /repo worktree add --detach $WT HEAD >/dev/null 2>&1
if ! git -C $WT apply --3way /verif/seeded/$SID/patch.diff >/dev/null 2>&1; then echo "$SID: patch does not apply"; git -C /repo worktree remove --force $WT; exit 3; fi
for PID in "$@"; do
  for SEED in ${SEEDS:-0 1}; do
    RTC_REPO=$WT VERIF_OUT=$OUT VERIF_SEED=$SEED timeout 3000 ${VERIF_ROOT:-/verif}/check $PID --tier quick > $OUT/$PID.$SEED.log 2>&1
    echo "$SID $PID seed=$SEED exit=$? :: $(grep VIOLATION $OUT/$PID.$SEED.log | head -1) :: $(tail -1 $OUT/$PID.$SEED.log | cut -c1-200)"
  done
done
git -C /repo worktree remove --force $WT
