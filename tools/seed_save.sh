#!/bin/bash
# tools/seed_save.sh <worktree> <seed-id> : confirm the demo (fails with change, passes on /repo), save patch+demo, remove worktree
set -u
WT=$1; SID=$2; D=/verif/seeded/$SID; mkdir -p $D
git -C $WT diff -- src > $D/patch.diff
cp $WT/demo_*.py $D/
DEMO=$(ls $WT/demo_*.py | head -1)
(cd $WT && PYTHONPATH=$WT/src timeout 900 /venv/bin/python $DEMO > /dev/null 2>&1); A=$?
(cd $WT && PYTHONPATH=/repo/src timeout 900 /venv/bin/python $DEMO > /dev/null 2>&1); B=$?
echo "$SID demo_with_change_exit=$A demo_on_repo_exit=$B"
git -C /repo worktree remove --force $WT
