#!/bin/bash
# tools/seed_trial.sh <worktree-with-change> <seed-id> <property-id> [more property ids...]
# Confirms nothing itself; records the change under seeded/<seed-id>/ and runs the given checks
# against the changed tree (RTC_REPO=<worktree>, outputs under /tmp/seed_out/<seed-id>).
set -u
WT=$1; SID=$2; shift 2
D=/verif/seeded/$SID
mkdir -p $D
git -C $WT diff -- src > $D/patch.diff
cp $WT/demo_*.py $D/ 2>/dev/null
OUT=/tmp/seed_out/$SID; mkdir -p $OUT
for PID in "$@"; do
  for SEED in 0 1; do
    RTC_REPO=$WT VERIF_OUT=$OUT VERIF_SEED=$SEED /verif/check $PID --tier quick > $OUT/$PID.$SEED.log 2>&1
    echo "$PID seed=$SEED exit=$? $(grep -c VIOLATION $OUT/$PID.$SEED.log) $(tail -1 $OUT/$PID.$SEED.log)"
  done
done
