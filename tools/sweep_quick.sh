#!/bin/bash
# quick tier of every claimed check for seeds $1..$2 on the clean tree; outputs under /tmp/sweep_out
cd /verif
for SEED in $(seq $1 $2); do
for p in $(python3 -c "import json;print(' '.join(c['property_id'] for c in json.load(open('MANIFEST.json'))['checks']))"); do
  VERIF_OUT=/tmp/sweep_out VERIF_SEED=$SEED timeout 1800 ./check $p --tier quick > /tmp/sweep_$p.$SEED.log 2>&1; e=$?
  echo "$p seed=$SEED exit=$e viol=$(grep -c VIOLATION /tmp/sweep_$p.$SEED.log) $(tail -1 /tmp/sweep_$p.$SEED.log | sed 's/.*evaluations//' | cut -c1-90)"
done; done
